#!/usr/bin/env python3
"""debug helper: validate an insn NDJSON file against Trace_X86 and summarise verdicts per (code, components)"""
import sys, json, collections
sys.path.insert(0, '/verif/lib')
import vlib
path, metap = sys.argv[1], sys.argv[2]
events = [json.loads(l) for l in open(path)]
meta = {}
for l in open(metap):
    m = json.loads(l); meta[m['c']] = m
wd = vlib.workdir('x86dbg')
chunks = vlib.chunks(events, 8)
v = vlib.tlc_trace_parallel('Trace_X86', 'Trace_X86.cfg', chunks, wd, 'd', 8)
vlib.cleanup(wd)
c = collections.Counter(); ex = {}
for line in v:
    cid, src, comps, dev = vlib.parse_tla_tuple(line)
    m = meta[cid]
    k = (m['code'], m['shape'].split('/')[0] if m['shape']!='reg' else 'reg', '+'.join(sorted(comps)), dev)
    c[k] += 1; ex.setdefault(k, (cid, m['text'], m['msg'][:80]))
print(len(events), 'events', len(v), 'verdicts')
for k, n in sorted(c.items()):
    print(n, k, ex[k])
