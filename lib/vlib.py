"""Common machinery for the /verif checks: harness build, scenario execution under supervision,
TLC model checking / trace validation, verdict classification, evidence and replay files."""
import hashlib
import json
import os
import re
import shutil
import subprocess
import sys
import time

VERIF = os.path.dirname(os.path.dirname(os.path.abspath(__file__)))
SPEC = os.path.join(VERIF, "spec")
HARNESS = os.path.join(VERIF, "harness")
AXV = os.path.join(HARNESS, "target", "debug", "axv")
TLA_CP = "/opt/veriftools/tla/tla2tools.jar:/opt/veriftools/tla/CommunityModules-deps.jar"
M64 = 1 << 64


class ToolError(Exception):
    """Anything that is not a verdict about ax: build failure, TLC crash, timeout of a tool."""


def log(*a):
    print(*a, flush=True)


def seed_from_env(default=1):
    try:
        return int(os.environ.get("VERIF_SEED", default))
    except ValueError:
        return default


# ----------------------------------------------------------------------------------------------
# build
# ----------------------------------------------------------------------------------------------
def build_harness():
    """(Re)build the harness against /repo's current working tree, hooks on (--cfg ax_verif)."""
    t0 = time.time()
    env = dict(os.environ)
    env["CARGO_NET_OFFLINE"] = "true"
    lock = os.path.join(HARNESS, "Cargo.lock")
    if not os.path.exists(lock) and os.path.exists("/repo/Cargo.lock"):
        shutil.copy("/repo/Cargo.lock", lock)
    p = subprocess.run(["cargo", "build", "--offline", "--quiet"], cwd=HARNESS, env=env,
                       stdout=subprocess.PIPE, stderr=subprocess.STDOUT, text=True)
    if p.returncode != 0:
        log(p.stdout[-4000:])
        raise ToolError("harness build failed (does /repo still compile?)")
    return time.time() - t0


# ----------------------------------------------------------------------------------------------
# work directories
# ----------------------------------------------------------------------------------------------
def workdir(tag):
    d = os.path.join(VERIF, "work", f"{tag}-{os.getpid()}")
    shutil.rmtree(d, ignore_errors=True)
    os.makedirs(d)
    return d


def cleanup(d):
    shutil.rmtree(d, ignore_errors=True)


# ----------------------------------------------------------------------------------------------
# running scenarios on the real implementation
# ----------------------------------------------------------------------------------------------
def run_scenarios(scenarios, wd, name="sc", per_scenario_timeout=20.0):
    """Execute scenarios with the harness; returns the list of events (dicts).
    A worker that dies (abort, stack overflow, signal) or hangs is data: the scenario in flight gets a
    synthetic event {"ev":"worker", "res":{"k":"abort"|"hang"}} and the rest is run by a fresh worker."""
    inp = os.path.join(wd, f"{name}.in.ndjson")
    out = os.path.join(wd, f"{name}.out.ndjson")
    with open(inp, "w") as f:
        for s in scenarios:
            f.write(json.dumps(s, separators=(",", ":")) + "\n")
    if os.path.exists(out):
        os.remove(out)
    skip = 0
    n = len(scenarios)
    extra = {}
    while skip < n:
        budget = 60 + per_scenario_timeout * 2 + (n - skip) * 0.05
        try:
            p = subprocess.run([AXV, "run", inp, out, "--skip", str(skip)], timeout=budget,
                               stdout=subprocess.DEVNULL, stderr=subprocess.PIPE)
            rc = p.returncode
            hung = False
        except subprocess.TimeoutExpired:
            rc = -1
            hung = True
        if rc == 0:
            break
        if rc == 3:
            hung = True           # the harness watchdog saw no progress for 4 s inside one call into ax
        if rc == 2 and not hung:
            raise ToolError("harness usage/io error: " + p.stderr.decode(errors="replace")[-500:])
        # find the scenario in flight: number of "end" events written so far
        done = 0
        if os.path.exists(out):
            with open(out) as f:
                for line in f:
                    if line.startswith('{"ev":"end"'):
                        done += 1
        extra[done] = "hang" if hung else "abort"
        # truncate the partial output of the scenario in flight and append a synthetic verdict
        _truncate_partial(out)
        with open(out, "a") as f:
            sid = scenarios[done].get("id", "?")
            # (compact separators: the "end" lines are counted by prefix above, synthetic ones included)
            cj = lambda o: json.dumps(o, separators=(",", ":"))
            f.write(cj({"ev": "begin", "sc": sid, "n": 0}) + "\n")
            f.write(cj({"ev": "worker", "sc": sid, "i": -1,
                        "res": {"k": "hang" if hung else "abort", "rc": rc}, "obs": {},
                        "hooklog": []}) + "\n")
            f.write(cj({"ev": "end", "sc": sid}) + "\n")
        skip = done + 1
    events = []
    with open(out) as f:
        for line in f:
            line = line.strip()
            if line:
                events.append(json.loads(line))
    return events


def _truncate_partial(path):
    if not os.path.exists(path):
        return
    with open(path) as f:
        lines = f.readlines()
    # drop everything after the last complete scenario
    last_end = -1
    for i, line in enumerate(lines):
        if line.startswith('{"ev":"end"'):
            last_end = i
    with open(path, "w") as f:
        f.writelines(lines[:last_end + 1])


def split_by_scenario(events):
    cur = None
    res = {}
    order = []
    for e in events:
        if e["ev"] == "begin":
            cur = e["sc"]
            res[cur] = []
            order.append(cur)
        elif e["ev"] == "end":
            cur = None
        elif cur is not None:
            res[cur].append(e)
    return order, res


# ----------------------------------------------------------------------------------------------
# number encodings for TLC (ints are 32-bit there)
# ----------------------------------------------------------------------------------------------
def le_bytes(v, n=8):
    v &= (1 << (8 * n)) - 1
    return [(v >> (8 * i)) & 0xFF for i in range(n)]


def from_le(b):
    return sum(x << (8 * i) for i, x in enumerate(b))


HUGE = 1 << 30   # model image of 2^64 (see spec/Memory.tla): u64 v >= 2^64-2^29 |-> HUGE-(2^64-v)


def model_int(v):
    """Map a u64 to the specification's address line; None if it is in neither window."""
    if v < (1 << 29):
        return v
    if v >= M64 - (1 << 29):
        return HUGE - (M64 - v)
    return None


# ----------------------------------------------------------------------------------------------
# TLC
# ----------------------------------------------------------------------------------------------
def _tlc_cmd(workers, metadir, cfg, module, extra=(), xss=False, deque=False, heap="4g"):
    jopts = ["-XX:+UseParallelGC", f"-Xmx{heap}"]
    if xss:
        jopts.append("-Xss512m")
    if deque:
        jopts.append("-Dtlc2.tool.queue.IStateQueue=StateDeque")
    return (["java"] + jopts + ["-cp", TLA_CP, "tlc2.TLC", "-workers", str(workers), "-metadir", metadir,
            "-cleanup", "-noGenerateSpecTE", "-config", cfg] + list(extra) + [module])


STATS_RE = re.compile(r"(\d+) states generated, (\d+) distinct states found")


def tlc_mc(module, cfg, wd, workers=4, timeout=900, coverage=True, constants=None, tag=None):
    """Model-check spec/<module>.tla with spec/<cfg>.  `constants` overrides CONSTANT lines of the cfg
    (dict name -> TLA+ text).  Returns dict(states, distinct, out, edges, ok, coverage_zero)."""
    tag = tag or module
    d = os.path.join(wd, "mc_" + tag)
    os.makedirs(d, exist_ok=True)
    for f in os.listdir(SPEC):
        if f.endswith(".tla"):
            shutil.copy(os.path.join(SPEC, f), d)
    cfg_text = open(os.path.join(SPEC, cfg)).read()
    if constants:
        for k, v in constants.items():
            cfg_text, n = re.subn(rf"(?m)^(\s*{re.escape(k)}\s*=).*$", lambda m: m.group(1) + " " + v, cfg_text)
            if n != 1:
                raise ToolError(f"cfg {cfg}: constant {k} not found")
    cfg_path = os.path.join(d, tag + ".cfg")
    open(cfg_path, "w").write(cfg_text)
    extra = ["-coverage", "1"] if coverage else []
    cmd = _tlc_cmd(workers, os.path.join(d, "meta"), cfg_path, os.path.join(d, module + ".tla"), extra)
    t0 = time.time()
    try:
        p = subprocess.run(cmd, cwd=d, timeout=timeout, stdout=subprocess.PIPE, stderr=subprocess.STDOUT, text=True)
    except subprocess.TimeoutExpired:
        raise ToolError(f"TLC timed out on {module}/{cfg} after {timeout}s")
    out = p.stdout
    m = None
    for m in STATS_RE.finditer(out):
        pass
    res = {"out": out, "wall": time.time() - t0, "rc": p.returncode,
           "states": int(m.group(1)) if m else 0, "distinct": int(m.group(2)) if m else 0,
           "ok": "Model checking completed. No error has been found." in out}
    # TLC wraps long tuples over several lines ("<< "EDGE",\n   "..." >>"): allow any whitespace
    res["edges"] = [json.loads(json.loads(x)) for x in re.findall(r'<<\s*"EDGE",\s*("(?:[^"\\]|\\.)*")\s*>>', out)]
    res["violated"] = re.findall(r"Invariant (\w+) is violated|Action property (\w+) is violated", out)
    shutil.rmtree(os.path.join(d, "meta"), ignore_errors=True)
    return res


def apalache(module, init, inv, length, wd, cinit=None, timeout=1800, mutate=None, tag="apa"):
    """Run apalache-mc check on spec/<module>.tla (typed module).  mutate: (old, new) text replacement applied to a copy of
    the module (non-vacuity runs).  Returns "NoError" | "Error" (invariant violated); anything else is a tool error."""
    d = os.path.join(wd, tag)
    os.makedirs(d, exist_ok=True)
    text = open(os.path.join(SPEC, module + ".tla")).read()
    if mutate:
        if mutate[0] not in text:
            raise ToolError(f"apalache mutation anchor not found in {module}.tla")
        text = text.replace(mutate[0], mutate[1])
    with open(os.path.join(d, module + ".tla"), "w") as f:
        f.write(text)
    cmd = ["apalache-mc", "check", f"--out-dir={os.path.join(d, 'out')}", f"--init={init}", f"--inv={inv}", f"--length={length}"]
    if cinit:
        cmd.append(f"--cinit={cinit}")
    cmd.append(module + ".tla")
    try:
        p = subprocess.run(cmd, cwd=d, timeout=timeout, stdout=subprocess.PIPE, stderr=subprocess.STDOUT, text=True)
    except subprocess.TimeoutExpired:
        raise ToolError(f"apalache timed out on {module} ({init} / {inv})")
    m = re.search(r"The outcome is: (\w+)", p.stdout)
    if not m or m.group(1) not in ("NoError", "Error"):
        raise ToolError(f"apalache failed on {module} ({init} / {inv}): " + p.stdout[-600:])
    shutil.rmtree(os.path.join(d, "out"), ignore_errors=True)
    return m.group(1)


def tlaps(module, wd, timeout=1800, threads=4, tag="tlaps"):
    """Run tlapm on spec/<module>.tla; returns the number of obligations proved (all of them) or raises ToolError."""
    d = os.path.join(wd, tag)
    os.makedirs(d, exist_ok=True)
    shutil.copy(os.path.join(SPEC, module + ".tla"), d)
    try:
        p = subprocess.run(["tlapm", "--threads", str(threads), "--cleanfp", module + ".tla"], cwd=d, timeout=timeout,
                           stdout=subprocess.PIPE, stderr=subprocess.STDOUT, text=True)
    except subprocess.TimeoutExpired:
        raise ToolError(f"tlapm timed out on {module}")
    m = re.search(r"All (\d+) obligations? proved", p.stdout)
    if not m:
        raise ToolError(f"tlapm did not prove {module}: " + p.stdout[-800:])
    return int(m.group(1))


def require_mc_ok(res, what):
    if not res["ok"]:
        tail = "\n".join(l for l in res["out"].splitlines()
                         if not re.match(r"^(Parsing|Semantic|Linting|\s*\|)", l))[-3000:]
        log(tail)
        raise ToolError(f"TLC did not complete cleanly on {what} (specification-level failure)")


def action_coverage(out):
    """Parse `-coverage 1` output: {'<Action line N>': count}; used to flag never-taken actions (vacuity)."""
    cov = {}
    for m in re.finditer(r"^<(\w+) line (\d+), col \d+ to line \d+, col \d+ of module (\w+)>: (\d+):(\d+)", out, re.M):
        cov[f"{m.group(3)}!{m.group(1)}@{m.group(2)}"] = int(m.group(5))
    return cov


def extract_verdicts(out):
    """All `<<"VERDICT", ...>>` tuples printed by a trace spec, as the text between the outer brackets with
    whitespace normalised.  TLC pretty-prints long tuples over several lines, so this scans for the matching `>>`."""
    res = []
    for m in re.finditer(r'<<\s*"VERDICT",', out):
        i = m.start()
        depth = 0
        j = i
        instr = False
        while j < len(out):
            c = out[j]
            if instr:
                if c == "\\":
                    j += 1
                elif c == '"':
                    instr = False
            elif c == '"':
                instr = True
            elif out.startswith("<<", j):
                depth += 1
                j += 1
            elif out.startswith(">>", j):
                depth -= 1
                j += 1
                if depth == 0:
                    break
            j += 1
        inner = out[i + 2:j - 1]
        inner = re.sub(r"\s+", " ", inner).strip()
        inner = re.sub(r'^"VERDICT",\s*', "", inner)
        res.append(inner)
    return res


def tlc_trace(module, cfg, trace_events, wd, tag, timeout=900, heap="3g"):
    """Validate a list of (already projected) events against spec/<module>.tla.
    Returns (verdict_lines, done) where verdict_lines are the raw TLA+ tuples printed by the trace spec."""
    d = os.path.join(wd, "tv_" + tag)
    os.makedirs(d, exist_ok=True)
    for f in os.listdir(SPEC):
        if f.endswith(".tla"):
            shutil.copy(os.path.join(SPEC, f), d)
    shutil.copy(os.path.join(SPEC, cfg), os.path.join(d, cfg))
    tpath = os.path.join(d, "trace.ndjson")
    with open(tpath, "w") as f:
        for e in trace_events:
            f.write(json.dumps(e, separators=(",", ":")) + "\n")
    cmd = _tlc_cmd(1, os.path.join(d, "meta"), os.path.join(d, cfg), os.path.join(d, module + ".tla"),
                   xss=True, deque=True, heap=heap)
    env = dict(os.environ)
    env["TRACE"] = tpath
    try:
        p = subprocess.run(cmd, cwd=d, env=env, timeout=timeout, stdout=subprocess.PIPE, stderr=subprocess.STDOUT, text=True)
    except subprocess.TimeoutExpired:
        raise ToolError(f"TLC trace validation timed out ({module}, {len(trace_events)} events)")
    out = p.stdout
    done = re.search(r'<<"TRACE-DONE", (\d+)>>', out)
    if not done or int(done.group(1)) != len(trace_events) or "No error has been found" not in out:
        tail = "\n".join(l for l in out.splitlines() if not re.match(r"^(Parsing|Semantic|Linting)", l))[-3000:]
        log(tail)
        raise ToolError(f"trace validation of {tag} did not consume the whole trace (tool/spec error)")
    shutil.rmtree(d, ignore_errors=True)          # a validated trace is not needed again (large thorough tiers: hundreds of MB)
    return extract_verdicts(out), out


def tlc_trace_parallel(module, cfg, event_chunks, wd, tag, jobs=8, timeout=900):
    """Validate several independent traces (each a list of events starting at a scenario boundary)."""
    from concurrent.futures import ThreadPoolExecutor
    verdicts = []
    with ThreadPoolExecutor(max_workers=jobs) as ex:
        futs = [ex.submit(tlc_trace, module, cfg, ch, wd, f"{tag}{i}", timeout) for i, ch in enumerate(event_chunks)]
        for f in futs:
            v, _ = f.result()
            verdicts.extend(v)
    return verdicts


def parse_tla_tuple(s):
    """Parse the inside of a printed TLA+ tuple of strings / ints / sets of strings into Python values."""
    out = []
    i = 0
    n = len(s)
    while i < n:
        c = s[i]
        if c in " ,":
            i += 1
        elif c == '"':
            j = i + 1
            while s[j] != '"':
                j += 2 if s[j] == "\\" else 1
            out.append(json.loads(s[i:j + 1]))
            i = j + 1
        elif c == "{":
            j = s.index("}", i)
            out.append(set(json.loads(x) for x in re.findall(r'"(?:[^"\\]|\\.)*"', s[i:j + 1])))
            i = j + 1
        elif c == "<" and s[i:i + 2] == "<<":
            depth = 0
            j = i
            while True:
                if s[j:j + 2] == "<<":
                    depth += 1
                    j += 2
                elif s[j:j + 2] == ">>":
                    depth -= 1
                    j += 2
                    if depth == 0:
                        break
                else:
                    j += 1
            out.append(parse_tla_tuple(s[i + 2:j - 2]))
            i = j
        else:
            m = re.match(r"-?\d+|TRUE|FALSE|\w+", s[i:])
            tok = m.group(0)
            out.append(int(tok) if re.fullmatch(r"-?\d+", tok) else (tok == "TRUE" if tok in ("TRUE", "FALSE") else tok))
            i += len(tok)
    return out


# ----------------------------------------------------------------------------------------------
# known findings, replay files, evidence
# ----------------------------------------------------------------------------------------------
def load_known_findings():
    """KNOWN_FINDINGS.txt: lines  `open: property=Cxx id=<slug> key=<regex on the finding key> :: text`
    and `fixed: property=Cxx <commit> <what failed>` (fixed entries suppress nothing)."""
    path = os.path.join(VERIF, "KNOWN_FINDINGS.txt")
    entries = []
    if not os.path.exists(path):
        return entries
    for line in open(path):
        line = line.strip()
        if not line.startswith("open:"):
            continue
        m = re.match(r"open:\s+property=(\S+)\s+id=(\S+)\s+key=(\S+)\s*::\s*(.*)$", line)
        if not m:
            raise ToolError("malformed KNOWN_FINDINGS.txt line: " + line)
        entries.append({"property": m.group(1), "id": m.group(2), "key": re.compile(m.group(3)), "text": m.group(4)})
    return entries


class Report:
    """Collects findings of one check run, classifies them against KNOWN_FINDINGS.txt, writes replays and
    evidence, and produces the exit code."""

    def __init__(self, prop, tier, seed, level):
        self.prop = prop
        self.tier = tier
        self.seed = seed
        self.level = level
        self.t0 = time.time()
        self.known = [k for k in load_known_findings() if k["property"] == prop]
        self.violations = []     # (key, replay dict)
        self.known_hits = {}     # id -> count
        self.cov = {"samples": []}
        self.assumptions = []

    def finding(self, key, replay):
        """key: a stable string naming WHAT fails (used to match known findings); replay: JSON-able case."""
        for k in self.known:
            if k["key"].fullmatch(key) or k["key"].match(key):
                self.known_hits[k["id"]] = self.known_hits.get(k["id"], 0) + 1
                return "known"
        self.violations.append((key, replay))
        return "violation"

    def finish(self):
        wall = time.time() - self.t0
        rdir = os.path.join(VERIF, "replays", self.prop)
        lines = []
        seen = {}
        shutil.rmtree(rdir, ignore_errors=True)
        for key, replay in self.violations:
            h = hashlib.sha1((key + json.dumps(replay, sort_keys=True, default=_json_default)).encode()).hexdigest()[:12]
            # at most 2 replay files per distinct failure key, 40 keys
            if seen.get(key, 0) >= 2 or (key not in seen and len(seen) >= 40):
                continue
            seen[key] = seen.get(key, 0) + 1
            os.makedirs(rdir, exist_ok=True)
            path = os.path.join(rdir, h + ".json")
            with open(path, "w") as f:
                json.dump({"property": self.prop, "key": key, "case": replay}, f, indent=1, default=_json_default)
            lines.append(f"VIOLATION property={self.prop} replay={path}")
            if seen[key] == 1:
                log(f"  violation key: {key}")
        for k in self.known:
            if k["id"] in self.known_hits:
                log(f"KNOWN-FINDING: property={self.prop} {k['id']}: {k['text']} ({self.known_hits[k['id']]} occurrences)")
        # the evidence schema types some coverage keys: keep them what it says (a dict under "programs" once invalidated 8 files)
        for k in ("evaluations", "distinct_nontrivial", "states", "transitions", "traces_validated_against_impl", "obligations", "discharged",
                  "programs", "disagreements_checked"):
            if k in self.cov and not (isinstance(self.cov[k], int) and not isinstance(self.cov[k], bool) and self.cov[k] >= 0):
                raise ToolError(f"evidence key coverage.{k} must be a non-negative integer (schema), got {type(self.cov[k]).__name__}")
        for k, t in (("rule", str), ("checker_cmd", str), ("explanation", str), ("samples", list), ("trusted_base", list), ("exhaustive", bool)):
            if k in self.cov and not isinstance(self.cov[k], t):
                raise ToolError(f"evidence key coverage.{k} must be {t.__name__} (schema)")
        ev = {"property_id": self.prop, "tier": self.tier, "seed": self.seed, "level": self.level,
              "coverage": self.cov, "assumptions": self.assumptions, "wall_s": round(wall, 2),
              "violations": len(self.violations)}
        os.makedirs(os.path.join(VERIF, "evidence"), exist_ok=True)
        with open(os.path.join(VERIF, "evidence", self.prop + ".json"), "w") as f:
            json.dump(ev, f, indent=1, default=_json_default)
        for l in sorted(set(lines))[:50]:
            log(l)
        if lines:
            return 1
        log(f"OK property={self.prop} tier={self.tier} wall={wall:.1f}s")
        return 0


def _json_default(o):
    if isinstance(o, set):
        return sorted(o)
    return str(o)


def chunks(lst, n):
    k = max(1, (len(lst) + n - 1) // n)
    return [lst[i:i + k] for i in range(0, len(lst), k)]
