#!/usr/bin/env python3
"""Regenerates /verif/MANIFEST.json from the table below (single source of truth for the interface file)."""
import json
import os

VERIF = os.path.dirname(os.path.dirname(os.path.abspath(__file__)))

CLAIMED = {
    "C07": dict(category="model_checking",
                text="TLC checks RegFile.tla against arithmetic ground truth on every edge of a bounded model (2 GPRs + RIP, all their views, "
                     "ill-typed names, boundary and current-value-derived values); every edge of the depth-2 model is replayed on the real "
                     "Axecutor and seeded random histories over all 68 views are recorded; every recorded call is validated by TLC against "
                     "the same specification (full register file compared after each call).",
                design_ref="DESIGN.md §3 C07",
                note="Trusted: TLC, the harness projection (u64 -> 8 LE bytes), fatal_error! -> Err under cfg(ax_verif) (the wasm32 behaviour). "
                     "Conformance is by testing: bounded-exhaustive over the model's edges, sampled over 64-bit values.",
                technique="TLA+ spec + TLC model checking; TLC trace validation of model-edge replays and random API histories"),
    "C08": dict(category="model_checking",
                text="TLC explores Memory.tla (areas with bytes and protection) against an independent flat shadow memory: every read result and "
                     "every write footprint of every explored edge is checked against the flat ground truth, incl. accesses at addresses/lengths "
                     "near 2^64. Every read/write edge of the depth-2 model is replayed on the real Axecutor, and seeded random layouts/histories "
                     "through the byte and typed API accessors and through guest loads/stores/RMWs of 1..16 bytes at area edges are recorded; "
                     "TLC validates every recorded event against Memory.tla with the full area contents compared after each call.",
                design_ref="DESIGN.md §3 C08",
                note="Trusted: TLC, the u64 -> model address mapping (2^64 |-> HUGE; exact while areas lie below 2^29), hand-assembled guest templates. "
                     "Sampled over layouts/values; bounded-exhaustive over the model's edges.",
                technique="TLA+ spec + TLC model checking against a flat shadow memory; TLC trace validation of edge replays and random histories"),
    "C09": dict(category="model_checking",
                text="The same Memory.tla model carries a protection mask per area and per flat byte; TLC checks on every edge that a successful "
                     "access had the needed bit on every byte and that a denied access changed nothing. Conformance: all 8 masks x every access path "
                     "(API byte/typed accessors, ~30 guest templates covering loads, stores, immediate stores, RMW with changing and non-changing "
                     "operands, PUSH/CALL implicit stores, fetch), constructor code area, generated ELF text/rodata/data segments and random mem_prot "
                     "histories, each event validated by TLC against the specification.",
                design_ref="DESIGN.md §3 C09",
                note="Oracle is the property's permission model (x86 cannot express write-only/execute-only). A guest store to memory that is writable "
                     "but not readable may succeed or be refused (the property only says writes need write permission).",
                technique="TLA+ spec + TLC model checking; TLC trace validation of a mask x access-path matrix and random protection histories"),
    "C10": dict(category="model_checking",
                text="TLC checks NoOverlap as an invariant and the allocation laws (creation never steals a mapped byte, 'anywhere' is fresh and "
                     "holds the data, resize keeps the prefix and zero-fills) on every edge of the bounded Memory model. Every allocation edge of the "
                     "depth-2 model is replayed on the real Axecutor; seeded random histories place new areas before/inside/enclosing/abutting old "
                     "ones, use zero lengths, init_stack, and reuse 'anywhere' results; TLC validates every event (outcome must be one the "
                     "specification allows, observed area list must stay overlap-free). Hangs are caught by a watchdog.",
                design_ref="DESIGN.md §3 C10",
                note="Trusted: TLC, harness projection. ELF-load and brk area creation are exercised by C15/C13's checks, not here.",
                technique="TLA+ spec + TLC model checking (NoOverlap invariant); TLC trace validation of edge replays and random allocator histories"),
}
NOT_YET = {}


def main():
    props = [json.loads(l) for l in open(os.path.join(VERIF, "properties.jsonl"))]
    checks = []
    na = []
    for p in props:
        pid = p["id"]
        if pid in CLAIMED:
            c = CLAIMED[pid]
            checks.append({
                "property_id": pid,
                "quick_cmd": f"bin/check {pid} --tier quick",
                "thorough_cmd": f"bin/check {pid} --tier thorough",
                "evidence_file": f"/verif/evidence/{pid}.json",
                "replay_cmd_template": f"bin/check {pid} --replay {{path}}",
                "engine": "tla-mbt",
                "level_claimed": {"category": c["category"], "text": c["text"], "design_ref": c["design_ref"]},
                "level_note": c["note"],
                "technique": c["technique"],
            })
        else:
            na.append({"property_id": pid, "reason": NOT_YET.get(pid, "check not built yet in this round (work in progress; see DESIGN.md §3 for the planned TLA+ model and binding)")})
    m = {
        "version": 1,
        "setup_cmd": "cd /verif/harness && cp -n /repo/Cargo.lock Cargo.lock 2>/dev/null; CARGO_NET_OFFLINE=true cargo build --offline --quiet",
        "hooks": {
            "guard": "ax_verif",
            "enable": "RUSTFLAGS='--cfg ax_verif' (set in /verif/harness/.cargo/config.toml; the harness depends on /repo by path and is rebuilt by every check)",
            "baseline_off_cmd": "cd /repo && cargo nextest run --workspace --no-fail-fast --offline --test-threads 8",
            "source_commits": HOOK_COMMITS,
            "add_only": True,
        },
        "engines": [{"name": "tla-mbt", "path": "/verif/bin/check",
                     "serves_properties": sorted(CLAIMED),
                     "kind_free_text": "explicit TLA+ specification (spec/*.tla) model-checked with TLC; bound to the code by TLC trace validation of "
                                       "executions recorded from the real Axecutor (harness/) and by replaying TLC-generated model edges"}],
        "checks": checks,
        "not_applicable": na,
        "notes": "exit 0 = held (KNOWN-FINDING lines for entries of KNOWN_FINDINGS.txt), 1 = VIOLATION, 2 = tool error. See DESIGN.md.",
    }
    json.dump(m, open(os.path.join(VERIF, "MANIFEST.json"), "w"), indent=1)


HOOK_COMMITS = ["a339176"]

if __name__ == "__main__":
    main()
