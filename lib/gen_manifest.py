#!/usr/bin/env python3
"""Regenerates /verif/MANIFEST.json from the table below (single source of truth for the interface file)."""
import json
import os

VERIF = os.path.dirname(os.path.dirname(os.path.abspath(__file__)))

CLAIMED = {
    "C07": dict(category="model_checking",
                text="TLC checks RegFile.tla against arithmetic ground truth on every edge of a bounded model (2 GPRs + RIP, all their views, "
                     "ill-typed names, boundary and current-value-derived values); every edge of the depth-2 model is replayed on the real "
                     "Axecutor and seeded random histories over all 68 views are recorded; every recorded call is validated by TLC against "
                     "the same specification (full register file compared after each call).",
                design_ref="DESIGN.md §3 C07",
                note="Trusted: TLC, the harness projection (u64 -> 8 LE bytes), fatal_error! -> Err under cfg(ax_verif) (the wasm32 behaviour). "
                     "Conformance is by testing: bounded-exhaustive over the model's edges, sampled over 64-bit values.",
                technique="TLA+ spec + TLC model checking; TLC trace validation of model-edge replays and random API histories"),
}
NOT_YET = {}


def main():
    props = [json.loads(l) for l in open(os.path.join(VERIF, "properties.jsonl"))]
    checks = []
    na = []
    for p in props:
        pid = p["id"]
        if pid in CLAIMED:
            c = CLAIMED[pid]
            checks.append({
                "property_id": pid,
                "quick_cmd": f"bin/check {pid} --tier quick",
                "thorough_cmd": f"bin/check {pid} --tier thorough",
                "evidence_file": f"/verif/evidence/{pid}.json",
                "replay_cmd_template": f"bin/check {pid} --replay {{path}}",
                "engine": "tla-mbt",
                "level_claimed": {"category": c["category"], "text": c["text"], "design_ref": c["design_ref"]},
                "level_note": c["note"],
                "technique": c["technique"],
            })
        else:
            na.append({"property_id": pid, "reason": NOT_YET.get(pid, "check not built yet in this round (work in progress; see DESIGN.md §3 for the planned TLA+ model and binding)")})
    m = {
        "version": 1,
        "setup_cmd": "cd /verif/harness && cp -n /repo/Cargo.lock Cargo.lock 2>/dev/null; CARGO_NET_OFFLINE=true cargo build --offline --quiet",
        "hooks": {
            "guard": "ax_verif",
            "enable": "RUSTFLAGS='--cfg ax_verif' (set in /verif/harness/.cargo/config.toml; the harness depends on /repo by path and is rebuilt by every check)",
            "baseline_off_cmd": "cd /repo && cargo nextest run --workspace --no-fail-fast --offline --test-threads 8",
            "source_commits": HOOK_COMMITS,
            "add_only": True,
        },
        "engines": [{"name": "tla-mbt", "path": "/verif/bin/check",
                     "serves_properties": sorted(CLAIMED),
                     "kind_free_text": "explicit TLA+ specification (spec/*.tla) model-checked with TLC; bound to the code by TLC trace validation of "
                                       "executions recorded from the real Axecutor (harness/) and by replaying TLC-generated model edges"}],
        "checks": checks,
        "not_applicable": na,
        "notes": "exit 0 = held (KNOWN-FINDING lines for entries of KNOWN_FINDINGS.txt), 1 = VIOLATION, 2 = tool error. See DESIGN.md.",
    }
    json.dump(m, open(os.path.join(VERIF, "MANIFEST.json"), "w"), indent=1)


HOOK_COMMITS = ["a339176"]

if __name__ == "__main__":
    main()
