#!/usr/bin/env python3
"""Regenerates /verif/MANIFEST.json from the table below (single source of truth for the interface file)."""
import json
import os

VERIF = os.path.dirname(os.path.dirname(os.path.abspath(__file__)))

CLAIMED = {
    "C07": dict(category="model_checking",
                text="TLC checks RegFile.tla against arithmetic ground truth on every edge of a bounded model (2 GPRs + RIP, all their views, "
                     "ill-typed names, boundary and current-value-derived values); every edge of the depth-2 model is replayed on the real "
                     "Axecutor and seeded random histories over all 68 views are recorded; every recorded call is validated by TLC against "
                     "the same specification (full register file compared after each call).",
                design_ref="DESIGN.md §3 C07",
                note="Trusted: TLC, the harness projection (u64 -> 8 LE bytes), fatal_error! -> Err under cfg(ax_verif) (the wasm32 behaviour). "
                     "Conformance is by testing: bounded-exhaustive over the model's edges, sampled over 64-bit values.",
                technique="TLA+ spec + TLC model checking; TLC trace validation of model-edge replays and random API histories"),
    "C08": dict(category="model_checking",
                text="TLC explores Memory.tla (areas with bytes and protection) against an independent flat shadow memory: every read result and "
                     "every write footprint of every explored edge is checked against the flat ground truth, incl. accesses at addresses/lengths "
                     "near 2^64. Every read/write edge of the depth-2 model is replayed on the real Axecutor, and seeded random layouts/histories "
                     "through the byte and typed API accessors and through guest loads/stores/RMWs of 1..16 bytes at area edges are recorded; "
                     "TLC validates every recorded event against Memory.tla with the full area contents compared after each call.",
                design_ref="DESIGN.md §3 C08",
                note="Trusted: TLC, the u64 -> model address mapping (2^64 |-> HUGE; exact while areas lie below 2^29), hand-assembled guest templates. "
                     "Sampled over layouts/values; bounded-exhaustive over the model's edges.",
                technique="TLA+ spec + TLC model checking against a flat shadow memory; TLC trace validation of edge replays and random histories"),
    "C09": dict(category="model_checking",
                text="The same Memory.tla model carries a protection mask per area and per flat byte; TLC checks on every edge that a successful "
                     "access had the needed bit on every byte and that a denied access changed nothing. Conformance: all 8 masks x every access path "
                     "(API byte/typed accessors, ~30 guest templates covering loads, stores, immediate stores, RMW with changing and non-changing "
                     "operands, PUSH/CALL implicit stores, fetch), constructor code area, generated ELF text/rodata/data segments and random mem_prot "
                     "histories, each event validated by TLC against the specification.",
                design_ref="DESIGN.md §3 C09",
                note="Oracle is the property's permission model (x86 cannot express write-only/execute-only). A guest store to memory that is writable "
                     "but not readable may succeed or be refused (the property only says writes need write permission).",
                technique="TLA+ spec + TLC model checking; TLC trace validation of a mask x access-path matrix and random protection histories"),
    "C10": dict(category="model_checking",
                text="TLC checks NoOverlap as an invariant and the allocation laws (creation never steals a mapped byte, 'anywhere' is fresh and "
                     "holds the data, resize keeps the prefix and zero-fills) on every edge of the bounded Memory model. Every allocation edge of the "
                     "depth-2 model is replayed on the real Axecutor; seeded random histories place new areas before/inside/enclosing/abutting old "
                     "ones, use zero lengths, init_stack, and reuse 'anywhere' results; TLC validates every event (outcome must be one the "
                     "specification allows, observed area list must stay overlap-free). Hangs are caught by a watchdog.",
                design_ref="DESIGN.md §3 C10",
                note="Trusted: TLC, harness projection. ELF-load and brk area creation are exercised by C15/C13's checks, not here.",
                technique="TLA+ spec + TLC model checking (NoOverlap invariant); TLC trace validation of edge replays and random allocator histories"),
    "C11": dict(category="model_checking",
                text="TLC explores Exec.tla over every abstract program of N slots (plain/jmp/taken and untaken jcc/call/ret/fault), every "
                     "instruction limit and every interleaving of step/execute/extra steps, checking count = successful steps <= limit, the exact "
                     "finish condition, 'a gated step fails and changes nothing' and the execute fixed point on every edge. Every (program, limit) "
                     "of the model is concretised to real bytes and replayed; seeded random programs over ~25 instruction templates (faulting, "
                     "undecodable, unsupported, indirect, entry point inside the code) run three ways (step loop / execute compared with it / extra "
                     "steps). TLC validates every recorded step against the same step relation, annotated from the generator's program table and "
                     "the logged pre-state.",
                design_ref="DESIGN.md §3 C11",
                note="Trusted: TLC, the Python program assembler/annotator (independent of ax's decoder). RIP after a failing step is unconstrained.",
                technique="TLA+ spec + TLC model checking; TLC trace validation of model-program replays and random programs run three ways"),
    "C12": dict(category="model_checking",
                text="TLC explores every sequence of up to 3-4 hooks from a menu (before/after x own/foreign mnemonic x unhandled/handled/error x "
                     "stop) and checks legal chains, before-before-after ordering and no foreign hooks on every edge. Every model configuration is "
                     "replayed with instrumented native hooks that log (id, phase, RIP, count), write mark registers and try to register hooks and "
                     "syscall handlers from inside; random configurations over random programs add registrations between steps and after failed "
                     "runs. TLC validates each step's hook log against the protocol (chains, RIP already advanced, before-effect-after, stop ends "
                     "the run cleanly, failing hook fails the step, modifications persist, running flag clear, registration refused only inside).",
                design_ref="DESIGN.md §3 C12",
                note="Native Rust hooks only (the JS path exists only on wasm32). Order among hooks of one phase not prescribed; after a before-hook "
                     "stop it is left open whether the instruction/after hooks still run; a stop() when execution is already finished may or may not "
                     "end the chain.",
                technique="TLA+ spec + TLC model checking of hook configurations; TLC trace validation of instrumented-hook logs"),
    "C18": dict(category="model_checking",
                text="TLC checks on the Exec model that the incrementally built log equals the run-length compression of the flow history, that "
                     "levels follow calls/returns and the call stack equals the unreturned calls. Model programs and seeded random programs of "
                     "jumps/jcc/calls/returns (direct/indirect, balanced or with returns outnumbering calls on a hand-made stack, faulting CALL/RET, "
                     "runs ending in errors) are executed; after every step TLC compares the structured trace and call stack with Compress(flow) and "
                     "CallStack(flow) built by an independent tracer, and trace()/call_stack()/to_string() must succeed without changing state.",
                design_ref="DESIGN.md §3 C18",
                note="Rendered text is not compared with a reference (totality is what the property demands; the structured log is compared).",
                technique="TLA+ spec + TLC model checking; TLC trace validation against an independent flow history"),
    "C13": dict(category="model_checking",
                text="TLC explores the brk rules (Brk.tla) on a reference heap next to a neighbouring area: no overlap, bytes below the break retained "
                     "across moves, query returns the break. Guest brk syscalls through the built-in handler are interleaved with guest stores/loads "
                     "into the heap under surrounding layouts (occupied first candidates, a small neighbour above the heap reachable only by a brk that "
                     "jumps over it), with query/grow/shrink/regrow-to-previous-break/below-base sequences; TLC validates every call against Brk.tla "
                     "using the handler's bounds, the heap area's sparse bytes and the other areas logged after every call.",
                design_ref="DESIGN.md §3 C13",
                note="Heap base is read through the cfg(ax_verif) accessor. Regrown bytes are unspecified; accesses at/above the break are not judged.",
                technique="TLA+ spec + TLC model checking; TLC trace validation of guest brk/heap-access histories"),
    "C14": dict(category="model_checking",
                text="TLC explores Pipe.tla with history variables (everything written to / read from each pipe): read-out is a prefix of written, "
                     "written = read-out + buffer, pipes disjoint, reads bounded by request and availability. All model edges and seeded random "
                     "interleavings (<= 3 pipes, both call directions on both ends, non-pipe descriptors, sizes beyond availability, bad source/"
                     "destination memory) are executed as guest syscalls with a user Syscall hook registered after the built-in handler; TLC validates "
                     "each call and the FIFO history statement on the recorded run; non-pipe calls must reach the user hook, pipe calls must not.",
                design_ref="DESIGN.md §3 C14",
                note="Descriptor numbers/buffers come from the cfg(ax_verif) accessor. Zero-length transfers with bad memory may succeed or fail.",
                technique="TLA+ spec with history variables + TLC model checking; TLC trace validation of guest syscall interleavings"),
    "C01": dict(category="model_checking",
                text="spec/X86.tla is an executable step relation over byte-sequence values (BV.tla); TLC checks every BV operator (add/sub with "
                     "carry, logic, shifts, widening signed/unsigned multiplication, division as computation and as the relation DIV/IDIV use, "
                     "extensions, parity) exhaustively against Nat arithmetic at a small digit base. For every implemented non-control, non-stack "
                     "form (spec/forms.json, derived from iced's opcode tables and probed on the pinned tree) in register and memory shapes, cases "
                     "with boundary-biased random states are executed on the real Axecutor AND natively on this CPU; TLC validates both streams "
                     "against X86.tla comparing all 16 GPRs, 16 XMM registers, every byte of the 6 guest areas and RIP. A violation is raised only "
                     "where the CPU's event is accepted and ax's is rejected; 'form no longer executes' is a violation.",
                design_ref="DESIGN.md §3 C01", note="Trusted: TLC; iced-x86's encoder and operand metadata (the instruction descriptor handed to the spec is written by the generator from iced's Instruction, never decoded by ax) - cross-checked by executing the same bytes natively; this machine's CPU as the hardware reference. Conformance is by testing: every form x shape is covered, values are sampled (boundary-biased + class-specific boundaries). A case on which specification and CPU disagree is excluded from judgement and counted in the evidence; FS-relative operands are judged by the specification alone. AF is not judged for ax where the architecture defines it.",
                technique="TLA+ reference semantics model-checked against arithmetic ground truth; TLC trace validation of ax and native-CPU executions"),
    "C02": dict(category="model_checking",
                text="Same machinery, flag component: X86.tla gives each of CF/PF/AF/ZF/SF/OF/DF a status per instruction class and input (defined "
                     "value / undefined / unaffected; e.g. masked shift count 0 leaves all flags, CF undefined beyond the width, OF defined for count 1 "
                     "only); defined flags must equal, unaffected flags must be kept, other RFLAGS bits must not change. Incoming flags are random per "
                     "case, shift counts come from {0,1,w-1,w,w+1,31,32,33,63,64,65,128,255,..}, multiplicands are placed at the CF/OF boundaries. "
                     "Both ax and CPU streams are validated by TLC.",
                design_ref="DESIGN.md §3 C02", note="Trusted: TLC; iced-x86's encoder and operand metadata (the instruction descriptor handed to the spec is written by the generator from iced's Instruction, never decoded by ax) - cross-checked by executing the same bytes natively; this machine's CPU as the hardware reference. Conformance is by testing: every form x shape is covered, values are sampled (boundary-biased + class-specific boundaries). A case on which specification and CPU disagree is excluded from judgement and counted in the evidence; FS-relative operands are judged by the specification alone. AF is not judged for ax where the architecture defines it.",
                technique="TLA+ flag-effect table (def/undef/same) + TLC trace validation of ax and native-CPU executions"),
    "C03": dict(category="model_checking",
                text="TLC checks the 16-entry condition table for all flag states (complementary pairs, and composed with CMP at small width: JA <=> a>b "
                     "unsigned, JG <=> a>b signed, ...). Every Jcc/JMP/CALL/RET/JRCXZ/JECXZ form is executed on ax and on the CPU with random flags, "
                     "rel8/rel32 forward and backward landing pads, register-, memory- and RSP-relative-memory-indirect targets and RCX boundary values; "
                     "TLC validates RIP (and everything else) of both streams against X86.tla.",
                design_ref="DESIGN.md §3 C03", note="Trusted: TLC; iced-x86's encoder and operand metadata (the instruction descriptor handed to the spec is written by the generator from iced's Instruction, never decoded by ax) - cross-checked by executing the same bytes natively; this machine's CPU as the hardware reference. Conformance is by testing: every form x shape is covered, values are sampled (boundary-biased + class-specific boundaries). A case on which specification and CPU disagree is excluded from judgement and counted in the evidence; FS-relative operands are judged by the specification alone. AF is not judged for ax where the architecture defines it.",
                technique="TLC model checking of the condition table; TLC trace validation of ax and native-CPU control transfers"),
    "C04": dict(category="model_checking",
                text="MC_Stack runs all <= 4-step programs of PUSH/POP/CALL/RET and [RSP] stores/loads with X86.tla's own step relation and checks the "
                     "consequences the property names (store-then-pop, live slots survive, ret consumes [RSP]); the same laws FAIL under ax's convention "
                     "(TLC counterexample = the machine-checked finding). Every PUSH/POP/CALL/RET form is executed on ax and the CPU with RSP anywhere "
                     "in the stack page and distinct landing pads in [rsp] and [rsp+8]; an ax event must equal the architecture, or else equal ax's known "
                     "convention EXACTLY (KNOWN-FINDING), or else it is a violation (wrong size, value, delta, clobbered slot, wrong operand evaluation).",
                design_ref="DESIGN.md §3 C04", note="Trusted: TLC; iced-x86's encoder and operand metadata (the instruction descriptor handed to the spec is written by the generator from iced's Instruction, never decoded by ax) - cross-checked by executing the same bytes natively; this machine's CPU as the hardware reference. Conformance is by testing: every form x shape is covered, values are sampled (boundary-biased + class-specific boundaries). A case on which specification and CPU disagree is excluded from judgement and counted in the evidence; FS-relative operands are judged by the specification alone. AF is not judged for ax where the architecture defines it." + " The one-slot shift of every stack access is an open known finding (not repairable without editing ~50 existing tests).",
                technique="TLC model checking of stack laws on the step relation; TLC trace validation with a named deviation action for the known finding"),
    "C05": dict(category="model_checking",
                text="MC_EA checks X86.tla's effective-address arithmetic against Nat ground truth for wrapping operands, all scales, both address sizes "
                     "and segment bases. LEA r16/32/64 and load/store probes (MOV, MOVZX, ADD, MOVUPS) over 9 addressing shapes x all base/index registers x "
                     "scales x disp8/disp32 x FS/GS x 0x67 run on ax and the CPU over position-dependent pattern memory, so a wrong address shows as a "
                     "wrong value or a write elsewhere; both streams validated by TLC.",
                design_ref="DESIGN.md §3 C05", note="Trusted: TLC; iced-x86's encoder and operand metadata (the instruction descriptor handed to the spec is written by the generator from iced's Instruction, never decoded by ax) - cross-checked by executing the same bytes natively; this machine's CPU as the hardware reference. Conformance is by testing: every form x shape is covered, values are sampled (boundary-biased + class-specific boundaries). A case on which specification and CPU disagree is excluded from judgement and counted in the evidence; FS-relative operands are judged by the specification alone. AF is not judged for ax where the architecture defines it.",
                technique="TLC model checking of EA arithmetic; TLC trace validation of ax and native-CPU address probes"),
    "C06": dict(category="model_checking",
                text="The fault predicates of X86.tla (divide error: zero divisor or quotient not representable - decided relationally and checked "
                     "exhaustively against Nat at small width; unmapped / past-the-end / non-writable / misaligned operands) decide for every case whether "
                     "the CPU completes. Dividends are built as q*d+r with q at the representability boundary; every memory-capable form is run with its "
                     "operand in RW, read-only, unmapped, straddling, exactly-fitting and misaligned memory, incl. RMW operands that leave memory "
                     "unchanged; natively the fault is the signal that kills the worker. ax must fail exactly when the CPU faults and must never crash.",
                design_ref="DESIGN.md §3 C06", note="Trusted: TLC; iced-x86's encoder and operand metadata (the instruction descriptor handed to the spec is written by the generator from iced's Instruction, never decoded by ax) - cross-checked by executing the same bytes natively; this machine's CPU as the hardware reference. Conformance is by testing: every form x shape is covered, values are sampled (boundary-biased + class-specific boundaries). A case on which specification and CPU disagree is excluded from judgement and counted in the evidence; FS-relative operands are judged by the specification alone. AF is not judged for ax where the architecture defines it.",
                technique="TLA+ fault predicates model-checked against ground truth; TLC trace validation of ax and native-CPU outcomes"),
    "C17": dict(category="model_checking",
                text="StackInit.tla states the System V entry frame relationally as the guest observes it (alignment, pop sequence argc/argv/NULL/envp/"
                     "NULL, NUL-terminated copies in order, frame and strings mapped writable, mutually disjoint and clear of pre-existing areas, space "
                     "below RSP = requested size up to padding). TLC enumerates configurations (argc, envc, string lengths, requested sizes, image) and "
                     "checks that a reference layout satisfies the post-condition and that mutated frames are rejected. Every model configuration and "
                     "seeded random ones (lists longer than the stack size, empty/long strings, images and small areas on the first candidate addresses) "
                     "run on the real Axecutor: init_stack_program_start, then real `pop rax` instructions pop the whole frame and the strings are read; "
                     "TLC validates the gathered outcome against the post-condition.",
                design_ref="DESIGN.md §3 C17",
                note="The guest pops through ax's own POP (slot convention: see C04); the frame range judged for mapping/disjointness covers both conventions. "
                     "Padding allowance 48 bytes. init_stack (without arguments) is exercised by C10/C11 scenarios only.",
                technique="TLA+ relational post-condition + TLC configuration enumeration; TLC validation of outcomes observed through guest POPs"),
    "C15": dict(category="model_checking",
                text="ElfLoad.tla states the load relationally on what is observable (segment file bytes at their virtual address, zero up to the memory "
                     "size, permissions from the flags, RIP = entry, every address carrying a defined symbol resolves to a name defined there, areas "
                     "disjoint). TLC enumerates configurations (segment count/order/pages incl. adjacent ones, size classes equal / bss tail / exact page "
                     "multiples / 1 byte / empty, all 8 flag masks, non-load headers, symbol-table shapes) and checks that a reference image satisfies the "
                     "post-condition and corrupted images are rejected. Every configuration (+ seeded random 2-3 segment ones) is written as a real ELF64 "
                     "file by an own writer, loaded with from_binary and observed; TLC validates the observation. Bundled binaries are checked against "
                     "their own headers.",
                design_ref="DESIGN.md §3 C15",
                note="Trusted: TLC, lib/elfgen.py. An address carrying only an unnamed symbol must resolve to the empty name. Segments with p_vaddr = 0 are outside the judged class.",
                technique="TLA+ relational post-condition + TLC configuration enumeration; TLC validation of loads of generated ELF files"),
    "C16": dict(category="exploration",
                text="Loading is a total relation with outcomes {ok, err}. TLC enumerates mutations (24 header fields x 16 boundary values x header index; "
                     "double mutations in the thorough tier); each is applied to a generated ELF with symbol table and to the bundled hello_world.bin, "
                     "together with every header truncation point, body truncations, random byte flips and random strings. Each file is offered to "
                     "from_binary in a supervised worker (catch_unwind, watchdog, address-space limit) whose global allocator records the largest "
                     "single request; TLC validates each outcome against totality and the allocation bound.",
                design_ref="DESIGN.md §3 C16",
                note="All byte strings cannot be enumerated: structured mutations are, the rest is sampled. A request >= 2^32 bytes counts as unrelated to the input.",
                technique="TLA+ mutation enumeration (TLC) + total outcome relation; supervised exploration with allocation accounting"),
    "C19": dict(category="exploration",
                text="Encoding.tla is a grammar of instruction encodings (prefixes x REX x opcode map x ModRM/SIB class x immediate size x implemented/any "
                     "opcode); TLC enumerates all 22,620 shape classes. For each class the harness fills the free bits at random; plus uniform random "
                     "strings, mutated valid encodings and the valid-encoding generators of C01-C06 with their class-specific extreme operands - each over "
                     "random states (registers into mapped memory, at area ends, RSP at the top of the address space). One step() under catch_unwind with "
                     "watchdog and supervisor; TLC validates every outcome against totality (ok | err).",
                design_ref="DESIGN.md §3 C19",
                note="2^120 strings cannot be enumerated; shape classes are. fatal_error!/opcode_unimplemented! return Err under cfg(ax_verif) as on wasm32.",
                technique="TLA+ encoding grammar enumerated by TLC + total outcome relation; supervised exploration"),
    "C20": dict(category="model_checking",
                text="TwoRun.tla is a two-run product with a taint set; TLC checks that untainted registers agree in every reachable state and that agreement "
                     "fails without the taint condition. Scenarios of the other drivers (random programs with hooks, brk, pipes, allocator histories, stack "
                     "initialisation, generated ELF with aliased symbols) run on three independently constructed machines - two consecutively in one process "
                     "and one in another process - after writing every randomised register explicitly; per action the observations (result, error text, "
                     "registers, XMM, flags, memory digest, count, structured and rendered trace/call stack, handler state) are paired and TLC validates "
                     "agreement, with pipe descriptor numbers normalised away.",
                design_ref="DESIGN.md §3 C20",
                note="to_string() is not compared (prints the hook table in HashMap order; not among the listed observables).",
                technique="TLA+ two-run product model-checked with TLC; TLC validation of paired observations (same- and cross-process)"),
}
NOT_YET = {}

PROG = (" Whole programs: seeded programs over all implemented forms (memory operands with address set-up, stack traffic, forward branches, "
        "counted loops) are run by step(), by execute() and by execute() under an instruction limit; TLC validates every step against the "
        "COMPOSED machine (Trace_Prog.tla = X86.tla + Exec.tla with the state carried from step to step) and this check takes the verdict "
        "components it owns.")
EXTRA_TEXT = {
    "C01": " Exhaustive at 8 bits: TLC prints the result tables of X86.tla for every operand pair x carry-in (all counts for shifts; MUL/IMUL) "
           "and every 8-bit form and operand shape of ax is run for ALL values against them." + PROG,
    "C02": " Exhaustive at 8 bits: the same TLC-printed tables carry every flag's value/status and are compared for all 8-bit operands." + PROG,
    "C03": PROG,
    "C04": " RSP is also placed at and across both edges of the stack area and in read-only / unmapped memory: a refused stack access must leave "
           "RSP, registers and memory unchanged." + PROG,
    "C05": " PUSH/POP/CALL r/m operands addressed through RSP are judged here as well.",
    "C06": " Guest accesses after shrink / regrow / re-protect histories are judged through Memory.tla (the mapping a fault depends on is a "
           "product of the machine's history)." + PROG,
    "C08": " Histories include mem_resize_section: accesses inside / across / beyond the new end of a shrunk area on every path, the "
           "regrown tail must read zero, a new area in a freed tail and an area around an emptied one are stores of their own; 'anywhere' "
           "blocks are written and read back; compare / test with an immediate must write nothing.",
    "C09": " Also: execute permission revoked and re-granted between fetches from the same area, and accesses straddling two abutting areas "
           "with different masks (PUSH/CALL slots under either stack convention must lie in ONE writable area), stores made through the API "
           "from inside a hook, and page-filling ELF segments (the loaded areas are checked against the flags written into the file).",
    "C10": " For unbounded addresses and lengths, Apalache discharges NoOverlap as an INDUCTIVE invariant of the same allocation rules "
           "(AllocInd.tla: Init => IndInv, IndInv /\\ Next => IndInv'; a resize rule without the collision test is refuted).",
    "C11": " The stack-empty test of a top-level RET is about the stack pointer (Exec.tla's depth = stack height, POP in the model alphabet, "
           "projection of the logged RSP in trace validation); execute() on a machine whose next step is refused must be refused too." + PROG,
    "C12": " Hooked instructions that FAIL are followed by further instructions of the mnemonic, or by a repair and a second execution: the "
           "hooks must still run.",
    "C15": " Symbols are generated with all kinds NOTYPE/OBJECT/FUNC/GNU_IFUNC x LOCAL/GLOBAL/WEAK, section-relative and absolute; size classes "
           "include segments without file content and segments whose virtual address is not page aligned (one of them running into the next "
           "page); TLS / RELRO / NOTE / GNU_STACK headers refer to the first segment whatever its flags.",
    "C16": " Further base files carry PT_TLS (over an area and in the middle of one) / PT_GNU_RELRO / PT_GNU_STACK / PT_INTERP (empty, one byte, "
           "a path) / PT_DYNAMIC headers and a symbol table with long, non-ASCII and non-UTF-8 names, so that those fields are mutated too "
           "(header index up to 4).",
    "C18": PROG,
    "C19": " Register states include tiny (0..16) and huge (2^64-16..) values for indirect branch targets and addresses.",
    "C20": " Partially written registers: seeded programs run on two machines with only a subset of the registers written (a random 10-80 %, "
           "or exactly the registers the program reads); per step the log carries the instruction's data-flow summary from iced's "
           "InstructionInfo and where the machines differ; Trace_Taint.tla carries the taint set (TwoRun!TaintG, whose noninterference "
           "MC_Taint model-checks on a machine with partial writes, conditional moves, memory and refused instructions) and demands agreement "
           "of outcome, error text, RIP, count, log and of every untainted register, flag and memory. The rule itself is PROVED sound (TLAPS, "
           "TaintSound.tla: 70 obligations) for any instruction set whose instructions respect their summaries; MC_Taint's machine is checked "
           "by TLC to be a model of the proof's assumptions.",
}
EXTRA_TECH = {
    "C01": "; exhaustive 8-bit tables printed by TLC replayed on ax; whole-program validation against the composed machine",
    "C02": "; exhaustive 8-bit flag tables; whole-program validation",
    "C03": "; whole-program validation", "C04": "; whole-program validation", "C06": "; Memory.tla validation of fault histories; whole-program validation",
    "C10": "; Apalache inductive invariant (unbounded addresses)",
    "C11": "; whole-program validation (step / execute / limit) against the composed machine", "C18": "; whole-program validation",
    "C20": "; taint-carrying trace validation of partially written two-run programs (noninterference model-checked with TLC and proved with TLAPS)",
}


def main():
    props = [json.loads(l) for l in open(os.path.join(VERIF, "properties.jsonl"))]
    checks = []
    na = []
    for p in props:
        pid = p["id"]
        if pid in CLAIMED:
            c = CLAIMED[pid]
            checks.append({
                "property_id": pid,
                "quick_cmd": f"bin/check {pid} --tier quick",
                "thorough_cmd": f"bin/check {pid} --tier thorough",
                "evidence_file": f"/verif/evidence/{pid}.json",
                "replay_cmd_template": f"bin/check {pid} --replay {{path}}",
                "engine": "tla-mbt",
                "level_claimed": {"category": c["category"], "text": c["text"] + EXTRA_TEXT.get(pid, ""), "design_ref": c["design_ref"]},
                "level_note": c["note"],
                "technique": c["technique"] + EXTRA_TECH.get(pid, ""),
            })
        else:
            na.append({"property_id": pid, "reason": NOT_YET.get(pid, "check not built yet in this round (work in progress; see DESIGN.md §3 for the planned TLA+ model and binding)")})
    m = {
        "version": 1,
        "setup_cmd": "cd /verif/harness && cp -n /repo/Cargo.lock Cargo.lock 2>/dev/null; CARGO_NET_OFFLINE=true cargo build --offline --quiet",
        "hooks": {
            "guard": "ax_verif",
            "enable": "RUSTFLAGS='--cfg ax_verif' (set in /verif/harness/.cargo/config.toml; the harness depends on /repo by path and is rebuilt by every check)",
            "baseline_off_cmd": "cd /repo && cargo nextest run --workspace --no-fail-fast --offline --test-threads 8",
            "source_commits": HOOK_COMMITS,
            "add_only": True,
        },
        "engines": [{"name": "tla-mbt", "path": "/verif/bin/check",
                     "serves_properties": sorted(CLAIMED),
                     "kind_free_text": "explicit TLA+ specification (spec/*.tla) model-checked with TLC; bound to the code by TLC trace validation of "
                                       "executions recorded from the real Axecutor (harness/) and by replaying TLC-generated model edges"}],
        "checks": checks,
        "not_applicable": na,
        "notes": "exit 0 = held (KNOWN-FINDING lines for entries of KNOWN_FINDINGS.txt), 1 = VIOLATION, 2 = tool error. See DESIGN.md.",
    }
    json.dump(m, open(os.path.join(VERIF, "MANIFEST.json"), "w"), indent=1)


HOOK_COMMITS = ["a339176"]

if __name__ == "__main__":
    main()
