"""Minimal ELF64 (x86-64, little-endian, ET_EXEC) writer used to turn abstract ELF configurations of the
specification (spec/ElfLoad.tla) into real files for Axecutor::from_binary."""
import struct

PT_NULL, PT_LOAD, PT_DYNAMIC, PT_INTERP, PT_NOTE, PT_SHLIB, PT_PHDR, PT_TLS = 0, 1, 2, 3, 4, 5, 6, 7
PT_GNU_EH_FRAME, PT_GNU_STACK, PT_GNU_RELRO, PT_GNU_PROPERTY = 0x6474e550, 0x6474e551, 0x6474e552, 0x6474e553
PF_X, PF_W, PF_R = 1, 2, 4
SHT_NULL, SHT_PROGBITS, SHT_SYMTAB, SHT_STRTAB = 0, 1, 2, 3


def build(entry, segments, symbols=None, phdr_extra=b"", ehdr_patch=None, shstr=True):
    """segments: list of dicts {type, flags, vaddr, data(bytes), memsz, align?, offset?(forced), filesz?(forced)}
    symbols: None (no section headers at all) or list of (name or None, value, shndx[, st_info]) -> .symtab/.strtab sections.
    ehdr_patch: dict field->value applied to the ELF header after layout (for malformed-input generation).
    Returns bytes."""
    ehsize, phentsize, shentsize = 64, 56, 64
    phnum = len(segments)
    phoff = ehsize
    off = phoff + phnum * phentsize + len(phdr_extra)
    blobs = []
    phdrs = []
    for s in segments:
        data = s.get("data", b"")
        align = s.get("align", 0x1000)
        # keep offset congruent to vaddr modulo page size like a linker would
        if s.get("type", PT_LOAD) == PT_LOAD and data:
            want = s["vaddr"] % 0x1000
            if off % 0x1000 != want:
                off += (want - off % 0x1000) % 0x1000
        o = s.get("offset", off)
        fs = s.get("filesz", len(data))
        phdrs.append((s.get("type", PT_LOAD), s.get("flags", PF_R), o, s["vaddr"], s.get("paddr", s["vaddr"]),
                      fs, s.get("memsz", len(data)), align))
        blobs.append((off, data))
        off += len(data)
    shoff = shnum = shstrndx = 0
    sect_blob = b""
    if symbols is not None:
        strtab = b"\0"
        syms = [struct.pack("<IBBHQQ", 0, 0, 0, 0, 0, 0)]
        for sym in symbols:
            name, value, shndx = sym[:3]
            info = sym[3] if len(sym) > 3 else 0x12          # default: GLOBAL FUNC
            if name is None:
                st_name = 0
            else:
                st_name = len(strtab)
                strtab += (name if isinstance(name, bytes) else name.encode()) + b"\0"       # bytes: names that are not valid UTF-8
            syms.append(struct.pack("<IBBHQQ", st_name, info, 0, shndx, value, 0))
        symtab = b"".join(syms)
        shstrtab = b"\0.symtab\0.strtab\0.shstrtab\0"
        sym_off = off
        str_off = sym_off + len(symtab)
        shs_off = str_off + len(strtab)
        shoff = shs_off + len(shstrtab)
        sect_blob = symtab + strtab + shstrtab
        sh = [struct.pack("<IIQQQQIIQQ", 0, 0, 0, 0, 0, 0, 0, 0, 0, 0),
              struct.pack("<IIQQQQIIQQ", 1, SHT_SYMTAB, 0, 0, sym_off, len(symtab), 2, 1, 8, 24),
              struct.pack("<IIQQQQIIQQ", 9, SHT_STRTAB, 0, 0, str_off, len(strtab), 0, 0, 1, 0),
              struct.pack("<IIQQQQIIQQ", 17, SHT_STRTAB, 0, 0, shs_off, len(shstrtab), 0, 0, 1, 0)]
        sect_blob += b"".join(sh)
        shnum, shstrndx = 4, 3
    eh = {
        "ident": b"\x7fELF" + bytes([2, 1, 1, 0]) + bytes(8),
        "type": 2, "machine": 62, "version": 1, "entry": entry, "phoff": phoff, "shoff": shoff, "flags": 0,
        "ehsize": ehsize, "phentsize": phentsize, "phnum": phnum, "shentsize": shentsize, "shnum": shnum,
        "shstrndx": shstrndx,
    }
    if ehdr_patch:
        eh.update(ehdr_patch)
    hdr = eh["ident"] + struct.pack("<HHIQQQIHHHHHH", eh["type"], eh["machine"], eh["version"], eh["entry"], eh["phoff"],
                                    eh["shoff"], eh["flags"], eh["ehsize"], eh["phentsize"], eh["phnum"],
                                    eh["shentsize"], eh["shnum"], eh["shstrndx"])
    out = bytearray(hdr)
    for p in phdrs:
        out += struct.pack("<IIQQQQQQ", p[0], p[1], p[2] & (2**64 - 1), p[3] & (2**64 - 1), p[4] & (2**64 - 1),
                           p[5] & (2**64 - 1), p[6] & (2**64 - 1), p[7])
    out += phdr_extra
    for o, data in blobs:
        if len(out) < o:
            out += bytes(o - len(out))
        out += data
    out += sect_blob
    return bytes(out)
