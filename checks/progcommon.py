"""Whole-program conformance against the COMPOSED machine (spec/Trace_Prog.tla = X86.tla + Exec.tla with carried state).

`axv prog` generates seeded programs over the implemented forms of spec/forms.json (register and memory operands with
`mov r64, imm64` address set-up, stack instructions on a valid stack, forward jumps / conditional jumps / calls, counted
loops) that end exactly at the end of the code area, and runs each one three ways on the real Axecutor:
  1. step by step - every step logged with the harness's own decode of the instruction at RIP, the outcome, the post
     state as a diff over all registers / flags / XMM / memory, the count, the finished flag and the control-flow log;
  2. execute() on a fresh machine - must end like the stepping run, in the same machine state;
  3. execute() under max_instructions = N < completed steps - must fail after exactly N instructions in the state the
     stepping run had after N steps; one more step must fail and change nothing.
TLC validates the whole log: every instruction is judged by X86.tla in the state the program really reached (the
specification carries the state from step to step), the loop bookkeeping by Exec.tla (Effect / FlowEvent / Compress).
Each property takes the verdict components it owns."""
import json
import os
import subprocess

import vlib

FORMS = os.path.join(vlib.VERIF, "spec", "forms.json")
JCC = {"ja", "jae", "jb", "jbe", "je", "jg", "jge", "jl", "jle", "jne", "jno", "jnp", "jns", "jo", "jp", "js", "jrcxz", "jecxz"}
FLOW = JCC | {"jmp", "call", "ret"}
STACK = {"push", "pop", "call", "ret"}


def klass(m):
    return "stack" if m in STACK else "flow" if m in FLOW else "data"


def generate(n, length, seed, wd, tag):
    out = os.path.join(wd, f"prog_{tag}.ndjson")
    cmd = [vlib.AXV, "prog", str(n), str(length), str(seed), FORMS, out]
    try:
        p = subprocess.run(cmd, timeout=3600, stdout=subprocess.PIPE, stderr=subprocess.PIPE, text=True)
    except subprocess.TimeoutExpired:
        raise vlib.ToolError("program harness timed out")
    if p.returncode != 0:
        raise vlib.ToolError(f"program harness failed rc={p.returncode}: {p.stderr[-500:]}")
    return [json.loads(l) for l in open(out)]


def validate(events, wd, tag, jobs):
    """-> list of (program id, step index | limit, code | event name, components)"""
    progs = []
    small = lambda v: v if v < (1 << 30) else -1          # X86!ToInt: addresses beyond the guest layout are "certainly unmapped" (-1)
    for e in events:
        if e["ev"] == "reset":
            progs.append([])
        e2 = {k: v for k, v in e.items() if k not in ("opv0", "sub")}
        if "trace" in e2:
            e2["trace"] = [dict(t, ip=small(t["ip"]), target=small(t["target"])) for t in e2["trace"]]
        progs[-1].append(e2)
    groups = vlib.chunks(progs, jobs)
    chunks = [[e for p in g for e in p] for g in groups if g]
    verdicts = vlib.tlc_trace_parallel("Trace_Prog", "Trace_Prog.cfg", chunks, wd, tag, jobs, timeout=3000)
    return [tuple(vlib.parse_tla_tuple(v)) for v in verdicts]


class Stats:
    def __init__(self):
        self.programs = self.steps = self.events = 0
        self.codes = set()
        self.endings = {}
        self.judged = {}


def judge(rep, n, length, seed, wd, tag, owns, jobs=8, stats=None):
    """owns(component, instruction class, mnemonic) -> bool.  Findings are keyed <Code>/prog/<components>[/negative-divisor];
    matches with ax's documented stack convention (C04's known finding) become stack-slot-shifted-by-one/<Code>."""
    st = stats or Stats()
    events = generate(n, length, seed, wd, tag)
    by = {}
    for e in events:
        by.setdefault(e["c"], []).append(e)
        if e["ev"] == "step":
            st.steps += 1
            st.codes.add(e["i"]["code"])
    st.programs += len(by)
    st.events += len(events)
    for evs in by.values():
        steps = [e for e in evs if e["ev"] == "step"]
        end = "finished" if steps and steps[-1]["finished"] else "error" if steps and steps[-1]["out"] != "ok" else "capped"
        st.endings[end] = st.endings.get(end, 0) + 1
    for c, k, code, comps in validate(events, wd, tag, jobs):
        evs = by[c]
        step = next((e for e in evs if e["ev"] == "step" and e["n"] == k and e["i"]["code"] == code), None)
        m = step["i"]["m"] if step else ""
        cls = klass(m) if step else "loop"
        mine = sorted(x for x in comps if owns(x, cls, m))
        for x in comps:
            st.judged[x] = st.judged.get(x, 0) + (1 if x in mine else 0)
        if not mine:
            continue
        if "known-stack-convention" in mine:
            key = f"stack-slot-shifted-by-one/{code}"
        else:
            key = f"{code}/prog/{'+'.join(mine)}"
            if step and code.startswith("Idiv") and step.get("opv0"):
                ov = step["opv0"]
                if (ov["v"] >> (ov["bits"] - 1)) & 1:
                    key += "/negative-divisor"
        reset = evs[0]
        rep.finding(key, {"prog": True, "n": n, "length": length, "seed": seed, "program": c, "at": k, "what": code, "components": sorted(comps),
                          "program_bytes": reset["pre"]["ov"][0], "initial_registers": reset["pre"]["r"],
                          "instruction": step["i"] if step else None,
                          "observed": {kk: step[kk] for kk in ("out", "sub", "post", "count", "finished")} if step else
                          next(({kk: e.get(kk) for kk in ("ev", "out", "limit", "count", "finished", "rip")} for e in evs if e["ev"] == code), None)})
    return st


def judge_many(rep, n, length, seed, wd, tag, owns, jobs=8, stats=None, batch=4000):
    """judge() in batches (a batch of 4000 programs is ~100 MB of log): bounded memory for the large thorough tiers"""
    st = stats or Stats()
    k = 0
    while n > 0:
        m = min(n, batch)
        judge(rep, m, length, seed + 7919 * k, wd, f"{tag}{k}", owns, jobs=jobs, stats=st)
        for f in os.listdir(wd):
            if f.startswith(f"prog_{tag}{k}"):
                os.remove(os.path.join(wd, f))
        n -= m
        k += 1
    return st


def phase(rep, tier, seed, wd, owns, quick_n=250, thorough_n=15000):
    """the standard whole-program phase of a property's check"""
    q = tier == "quick"
    st = judge_many(rep, quick_n if q else thorough_n, 12, seed, wd, "pg", owns, jobs=8 if q else 14)
    if not q:
        judge_many(rep, thorough_n // 4, 30, seed + 1, wd, "pl", owns, jobs=14, stats=st, batch=1500)
    cov(rep, st)
    return st


def cov(rep, st):
    rep.cov["whole_program_phase"] = {"programs_run_three_ways": st.programs, "steps_validated": st.steps, "events_validated": st.events,
                           "distinct_instruction_forms_executed": len(st.codes), "endings": st.endings,
                           "rule": "program = seeded sequence over spec/forms.json with address set-up, forward branches and counted loops, ending at the "
                                   "end of the code area; run by step(), by execute() and by execute() under an instruction limit; every event "
                                   "validated by Trace_Prog.tla (X86.tla + Exec.tla with the state carried from step to step)"}


def replay(rep, case, wd, owns):
    rep2 = vlib.Report(rep.prop, "quick", rep.seed, "model_checking")
    judge(rep2, case["n"], case["length"], case["seed"], wd, "r", owns, jobs=1)
    for key, r in rep2.violations:
        if r["program"] == case["program"] and r["at"] == case["at"]:
            rep.violations.append((key, r))
    rep.known_hits = rep2.known_hits
    rep.cov.update({"states": 1, "transitions": 1, "traces_validated_against_impl": 1, "samples": [case["what"]]})
    return rep.finish()
