"""C16 - malformed ELF input yields an error, never a crash, abort, hang or runaway allocation.
MC: MC_ElfMut enumerates single (and, in the thorough tier, double) mutations of header fields with boundary values;
loading is a total relation with outcomes {ok, err}.
Bind: every mutation is applied to real files (a generated two-segment ELF with symbol table and the bundled
hello_world.bin), plus every truncation point of the headers, coarse truncations and seeded random byte flips;
each file is offered to Axecutor::from_binary in a supervised worker (catch_unwind, watchdog, address-space limit)
whose global allocator records the largest single request.  TLC validates each outcome against totality and the
allocation bound (a request >= 2^32 bytes cannot be related to any input on the wasm32 target)."""
import json
import os
import random
import struct
import subprocess

import elfgen
import vlib

PROP = "C16"
ALLOC_LIMIT = (1 << 32) - 1
EH = {"e_type": (16, 2), "e_machine": (18, 2), "e_entry": (24, 8), "e_phoff": (32, 8), "e_shoff": (40, 8), "e_phentsize": (54, 2), "e_phnum": (56, 2),
      "e_shentsize": (58, 2), "e_shnum": (60, 2), "e_shstrndx": (62, 2), "ei_class": (4, 1), "ei_data": (5, 1)}
PH = {"p_type": (0, 4), "p_flags": (4, 4), "p_offset": (8, 8), "p_vaddr": (16, 8), "p_filesz": (32, 8), "p_memsz": (40, 8), "p_align": (48, 8)}
SH = {"sh_link": (40, 4), "sh_offset": (24, 8), "sh_size": (32, 8), "sh_entsize": (56, 8)}


def resolve(v, size):
    t = {"0": 0, "1": 1, "size-1": size - 1, "size": size, "size+1": size + 1, "2^31": 1 << 31, "2^32-1": (1 << 32) - 1, "2^32": 1 << 32,
         "2^63": 1 << 63, "2^64-1": (1 << 64) - 1, "page-1": 4095, "2^40": 1 << 40, "2^47": 1 << 47, "7": 7, "0x6474e551": 0x6474e551, "0xffff": 0xffff}
    return t[v]


def apply(base, muts):
    b = bytearray(base)
    size = len(b)
    phoff, shoff = struct.unpack_from("<QQ", base, 32)
    phentsize, phnum, shentsize, shnum = struct.unpack_from("<HHHH", base, 54)
    for m in muts:
        f, v, k = m["f"], resolve(m["v"], size), m["k"]
        if f in EH:
            off, n = EH[f]
        elif f in PH:
            if k > phnum:
                return None
            off, n = PH[f]
            off += phoff + (k - 1) * phentsize
        elif f in SH:
            if shnum == 0 or k >= shnum:
                return None
            off, n = SH[f]
            off += shoff + k * shentsize
        elif f == "st_name":
            if shnum == 0:
                return None
            symoff = struct.unpack_from("<Q", base, shoff + 1 * shentsize + 24)[0]
            off, n = symoff + k * 24, 4
        else:
            return None
        if off + n > size:
            return None
        b[off:off + n] = (v & ((1 << (8 * n)) - 1)).to_bytes(n, "little")
    return bytes(b)


def base_files():
    code = bytes([0x90] * 40)
    gen = elfgen.build(0x401000, [{"type": elfgen.PT_LOAD, "flags": 5, "vaddr": 0x401000, "data": code},
                                  {"type": elfgen.PT_LOAD, "flags": 6, "vaddr": 0x402000, "data": bytes(range(1, 33)), "memsz": 100}],
                       symbols=[("_start", 0x401000, 1), ("f", 0x401010, 1), (None, 0x401020, 1)])
    # a file whose 3rd-5th program headers are the non-LOAD kinds the loader acts on: PT_TLS over the data segment (its file
    # range inside the file), PT_GNU_RELRO, PT_GNU_STACK - so that mutations of THEIR fields (alignment 0, sizes, addresses) are offered
    tls = elfgen.build(0x401000, [{"type": elfgen.PT_LOAD, "flags": 5, "vaddr": 0x401000, "data": code},
                                  {"type": elfgen.PT_LOAD, "flags": 6, "vaddr": 0x402000, "data": bytes(range(1, 33)), "memsz": 100},
                                  {"type": elfgen.PT_TLS, "flags": 4, "vaddr": 0x402000, "data": b"", "offset": 0x1000, "filesz": 16, "memsz": 24, "align": 8},
                                  {"type": 0x6474e552, "flags": 4, "vaddr": 0x402000, "data": b"", "offset": 0x1000, "filesz": 32, "memsz": 32, "align": 1},
                                  {"type": elfgen.PT_GNU_STACK, "flags": 6, "vaddr": 0, "data": b"", "filesz": 0, "memsz": 0, "align": 16}],
                       symbols=[("_start", 0x401000, 1)])
    # ... and one whose PT_TLS header points into the MIDDLE of the data segment (no area starts there): a loader that falls back to
    # allocating a block for it sizes that block from this header's fields
    tls2 = elfgen.build(0x401000, [{"type": elfgen.PT_LOAD, "flags": 5, "vaddr": 0x401000, "data": code},
                                   {"type": elfgen.PT_LOAD, "flags": 6, "vaddr": 0x402000, "data": bytes(range(1, 33)), "memsz": 100},
                                   {"type": elfgen.PT_TLS, "flags": 4, "vaddr": 0x402010, "data": b"", "offset": 0x1000, "filesz": 8, "memsz": 16, "align": 8},
                                   {"type": elfgen.PT_TLS, "flags": 4, "vaddr": 0x700000, "data": b"", "offset": 0x1000, "filesz": 8, "memsz": 16, "align": 8}],
                        symbols=[("_start", 0x401000, 1)])
    # symbol names are input too: long, non-ASCII (multi-byte characters at every offset around 64 / 128 / 256), not valid UTF-8
    names = [("_start", 0x401000, 1), ("x" * 300, 0x401004, 1), (b"\xff\xfe\x80bad", 0x401008, 1), ("", 0x40100c, 1)]
    for k, pad in enumerate((61, 62, 63, 64, 65, 125, 126, 127, 128, 253, 254, 255, 256)):
        names.append(("a" * pad + "\u00e9\u4e2d\U0001f600" * 3 + "z" * 40, 0x401010 + 4 * k, 1))
    symf = elfgen.build(0x401000, [{"type": elfgen.PT_LOAD, "flags": 5, "vaddr": 0x401000, "data": bytes([0x90] * 128)}], symbols=names)
    # dynamic-linking headers: PT_INTERP (empty, one byte, a path) and PT_DYNAMIC, in the file and beyond its end
    def dyn(interp_data, off=None):
        h = {"type": elfgen.PT_INTERP, "flags": 4, "vaddr": 0x400200, "data": interp_data}
        if off is not None:
            h.update({"offset": off, "filesz": 0, "data": b""})
        return elfgen.build(0x401000, [{"type": elfgen.PT_LOAD, "flags": 5, "vaddr": 0x401000, "data": code}, h,
                                       {"type": elfgen.PT_DYNAMIC, "flags": 6, "vaddr": 0x402000, "data": bytes(32)}])
    files = {"gen": gen, "tls": tls, "tls2": tls2, "sym": symf, "interp0": dyn(b"", 0x100), "interp1": dyn(b"\0"),
             "interp": dyn(b"/lib64/ld-linux-x86-64.so.2\0")}
    hw = "/repo/testdata/hello_world.bin"
    if os.path.exists(hw):
        files["hello"] = open(hw, "rb").read()
    return files


def run_cases(cases, wd, tag):
    inp = os.path.join(wd, tag + ".in.ndjson")
    with open(inp, "w") as f:
        for c in cases:
            f.write(json.dumps({"cls": c["cls"], "data": list(c["data"])}) + "\n")
    out = os.path.join(wd, tag + ".out.ndjson")
    skip = 0
    synthetic = {}
    for _ in range(400):
        try:
            p = subprocess.run([vlib.AXV, "elf", inp, out, "--skip", str(skip)], timeout=3600, stdout=subprocess.DEVNULL, stderr=subprocess.PIPE)
        except subprocess.TimeoutExpired:
            raise vlib.ToolError("elf driver timed out")
        if p.returncode == 0:
            break
        if p.returncode == 2:
            raise vlib.ToolError("elf driver failed: " + p.stderr.decode(errors="replace")[-300:])
        last = None
        for l in reversed(open(out).read().splitlines()):
            d = json.loads(l)
            if d.get("begin"):
                last = d["c"]
            break
        if last is None:
            raise vlib.ToolError(f"elf driver died (rc={p.returncode}) outside a case")
        err = p.stderr.decode(errors="replace")
        kind = "hang" if p.returncode == 3 else "abort"
        synthetic[last] = {"c": last, "cls": cases[last]["cls"], "out": kind, "msg": (err.strip().splitlines() or [f"rc={p.returncode}"])[-1][:120],
                           "maxalloc": 0, "len": len(cases[last]["data"])}
        skip = last + 1
    else:
        raise vlib.ToolError("too many worker restarts")
    res = dict(synthetic)
    for l in open(out):
        d = json.loads(l)
        if not d.get("begin"):
            res[d["c"]] = d
    return [res[k] for k in sorted(res)]


def run(tier, seed):
    rep = vlib.Report(PROP, tier, seed, "exploration")
    rng = random.Random(seed)
    wd = vlib.workdir("c16")
    try:
        q = tier == "quick"
        mc = vlib.tlc_mc("MC_ElfMut", "MC_ElfMut.cfg", wd, workers=4, constants={"DumpEdges": "TRUE", "Double": "FALSE" if q else "TRUE"}, coverage=False, timeout=3000)
        vlib.require_mc_ok(mc, "MC_ElfMut")
        muts = mc["edges"]
        if len(muts) < 500:
            raise vlib.ToolError("mutation dump unexpectedly small")
        cases = []
        for name, base in base_files().items():
            cases.append({"cls": f"{name}/valid", "data": base})
            for m in muts:
                d = apply(base, m)
                if d is not None:
                    cases.append({"cls": f"{name}/" + "+".join(f"{x['f']}[{x['k']}]={x['v']}" for x in m), "data": d})
            hdr_end = 64 + 56 * 4
            for n in list(range(0, min(hdr_end, len(base)))) + [len(base) - k for k in (1, 2, 8, 24, 64, 65, 200) if len(base) > k] + \
                    [rng.randrange(hdr_end, len(base)) for _ in range(20 if q else 400)]:
                cases.append({"cls": f"{name}/truncate@{n if n < hdr_end else 'body'}", "data": base[:n]})
            for _ in range(300 if q else 20000):
                b = bytearray(base)
                for _ in range(rng.choice([1, 1, 2, 4, 16])):
                    i = rng.randrange(0, min(len(b), 1024)) if rng.random() < 0.8 else rng.randrange(len(b))
                    b[i] = rng.choice([0, 1, 0x7f, 0x80, 0xff, rng.randrange(256)])
                cases.append({"cls": f"{name}/flip", "data": bytes(b)})
        for _ in range(100 if q else 5000):
            cases.append({"cls": "random", "data": b"\x7fELF" + bytes(rng.randrange(256) for _ in range(rng.choice([0, 12, 60, 200])))})
        evs = run_cases(cases, wd, "e")
        proj = [{"c": e["c"], "cls": e["cls"], "out": e["out"], "maxalloc": min(e["maxalloc"], (1 << 30)) if e["maxalloc"] <= ALLOC_LIMIT else (1 << 30) + 1,
                 "alloclimit": 1 << 30} for e in evs]
        verdicts = vlib.tlc_trace_parallel("Trace_Total", "Trace_Total.cfg", vlib.chunks(proj, 8), wd, "t", 8, timeout=3000)
        byid = {e["c"]: e for e in evs}
        for v in verdicts:
            cid, _, cls, comps = vlib.parse_tla_tuple(v)
            e = byid[cid]
            fields = "+".join(sorted({x.split("[")[0].split("=")[0] for x in cls.split("/", 1)[1].split("+")})) if "/" in cls else cls
            rep.finding(f"{'+'.join(sorted(comps))}/{fields}/{(e.get('msg') or '')[:50]}",
                        {"class": cls, "message": e.get("msg"), "largest_allocation_request": e.get("maxalloc"), "file_hex": bytes(cases[cid]["data"][:4096]).hex(),
                         "file_len": len(cases[cid]["data"])})
        outs = {}
        for e in evs:
            outs[e["out"]] = outs.get(e["out"], 0) + 1
        rep.cov.update({
            "evaluations": len(evs), "distinct_nontrivial": len({(e["cls"], e["out"]) for e in evs}), "mutations_from_model": len(muts),
            "outcomes": outs, "largest_request_seen": max(e["maxalloc"] for e in evs), "states": mc["distinct"], "transitions": mc["states"],
            "rule": "case = one byte string offered to from_binary; distinct = distinct (mutation class, outcome); classes: model mutations "
                    "(field x boundary value x header index), every header truncation point, body truncations, random byte flips, random strings",
            "samples": [{"class": e["cls"], "out": e["out"], "msg": e.get("msg")} for e in evs[1:4]],
        })
        rep.assumptions += ["an allocation request >= 2^32 bytes is 'unrelated to the size of the input' (it cannot even be expressed on the wasm32 target)",
                            "fatal_error! under cfg(ax_verif) returns Err like the wasm32 build",
                            "all byte strings cannot be enumerated: structured mutations are, the rest is sampled (exploration level)"]
        return rep.finish()
    finally:
        vlib.cleanup(wd)


def replay(path, seed):
    rep = vlib.Report(PROP, "quick", seed, "exploration")
    case = json.load(open(path))["case"]
    wd = vlib.workdir("c16r")
    try:
        evs = run_cases([{"cls": case["class"], "data": bytes.fromhex(case["file_hex"])}], wd, "r")
        e = evs[0]
        if e["out"] not in ("ok", "err") or e["maxalloc"] > ALLOC_LIMIT:
            rep.finding(f"outcome-{e['out']}/{case['class']}", case)
        rep.cov.update({"evaluations": 1, "distinct_nontrivial": 2, "rule": "replay", "samples": [e]})
        return rep.finish()
    finally:
        vlib.cleanup(wd)
