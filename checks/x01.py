"""X01 (extra, not one of the 20 listed properties, not in MANIFEST.json) - exit / arch_prctl / registration of the built-in
system-call handlers against spec/Sys.tla.  MC: MC_Sys.  Bind: scenarios of `syscall` instructions with explicit RAX / RDI / RSI
under random registrations, pointers into mapped and unmapped memory; Trace_Sys judges each call as ABI-conformant, as ax's
documented (named) deviation from the Linux ABI, or as a regression.  Deviations are reported as observations (exit 0);
a regression is reported as VIOLATION property=X01."""
import json
import random

import vlib

PROP = "X01"
CODE = 0x100000
DATA = 0x2000


def scenario(rng, k):
    n = rng.choice([3, 5, 8])
    acts = [{"op": "new", "code": [0x0f, 0x05] * n + [0x90] * 2, "start": CODE, "rip": CODE},
            {"op": "mem_init_zero", "start": DATA, "len": 64},
            {"op": "write_fs", "val": rng.choice([0, 0x1111])}, {"op": "write_gs", "val": rng.choice([0, 0x2222])}]
    for _ in range(n):
        if rng.random() < 0.5:
            acts.append({"op": "handle_syscalls", "list": rng.sample(["Exit", "ArchPrctl", "Brk", "Pipe"], rng.choice([1, 1, 2]))})
        rax = rng.choice([158, 158, 158, 60, 60, 39, 231, 158])
        code = rng.choice([0x1001, 0x1002, 0x1003, 0x1004, 0x1000, 0x1005, 0, 0x1002])
        addr = rng.choice([DATA, DATA + 8, DATA + 63, DATA + 64, 0, 0x9000, 0x7fff0000])
        for reg, v in (("RAX", rax), ("RDI", code), ("RSI", addr)):
            acts.append({"op": "reg_write", "w": 64, "reg": reg, "val": v})
        acts.append({"op": "step", "sysc": {"code": code, "addr": addr, "readable": DATA <= addr < DATA + 64}})
    return {"id": f"s{k}", "obs": ["regs", "seg", "exec"], "actions": acts}


def small(v):
    return v if v < (1 << 30) else -1


def project(scs, events):
    order, by = vlib.split_by_scenario(events)
    scn = {s["id"]: s for s in scs}
    out = []
    for sid in order:
        prev = None
        for e in by[sid]:
            r = e.get("res", {})
            k = r.get("k", "harness")
            if k == "harness":
                raise vlib.ToolError(f"harness error in {sid}: {r}")
            a = scn[sid]["actions"][e["i"]] if e.get("i", -1) >= 0 else {}
            o = e.get("obs", {})
            cur = {"rax": small(o["regs"]["RAX"]), "fs": small(o["fs"]), "gs": small(o["gs"]), "finished": o["finished"]} if "regs" in o else None
            t = {"ev": "other", "sc": sid, "i": e.get("i", -1), "k": k, "v": bool(r.get("v")), "list": [], "code": 0, "addr": 0, "readable": False,
                 "pre": prev or {"rax": 0, "fs": 0, "gs": 0, "finished": False}, "post": cur or {"rax": 0, "fs": 0, "gs": 0, "finished": False}}
            if e["ev"] == "new":
                t["ev"] = "new"
            elif e["ev"] == "handle_syscalls":
                t["ev"] = "register"
                t["list"] = a["list"]
            elif e["ev"] == "step" and "sysc" in a and prev is not None and not prev["finished"]:
                t["ev"] = "sys"
                t.update({"code": small(a["sysc"]["code"]), "addr": small(a["sysc"]["addr"]), "readable": a["sysc"]["readable"]})
            if cur:
                prev = cur
            out.append(t)
    return out


def run(tier, seed):
    rep = vlib.Report(PROP, tier, seed, "model_checking")
    rng = random.Random(seed)
    wd = vlib.workdir("sys")
    try:
        mc = vlib.tlc_mc("MC_Sys", "MC_Sys.cfg", wd, workers=4, timeout=1200, coverage=False)
        vlib.require_mc_ok(mc, "MC_Sys")
        scs = [scenario(rng, k) for k in range(300 if tier == "quick" else 6000)]
        events = vlib.run_scenarios(scs, wd, "sys")
        proj = project(scs, events)
        bysc = {}
        for t in proj:
            bysc.setdefault(t["sc"], []).append(t)
        chunks = [[t for sid in g for t in bysc[sid]] for g in vlib.chunks(list(bysc), 8) if g]       # chunks start at scenario boundaries
        verdicts = vlib.tlc_trace_parallel("Trace_Sys", "Trace_Sys.cfg", chunks, wd, "t", 8)
        dev = 0
        scn = {s["id"]: s for s in scs}
        for v in verdicts:
            sc, i, ev, comps = vlib.parse_tla_tuple(v)
            if comps == {"abi-deviation"}:
                dev += 1
                continue
            rep.finding(f"{ev}/{'+'.join(sorted(c for c in comps if c != 'abi-deviation'))}", {"scenario": scn[sc], "failing_action": i})
        if dev:
            vlib.log(f"OBSERVATION: {dev} arch_prctl call(s) behave as ax documents them and not as the Linux ABI does (0x1001 / 0x1003 exchanged, GET results "
                     "in RAX instead of through the pointer, a successful SET does not return 0, unreadable pointer refused for every code) - "
                     "spec/Sys.tla names these deviations; none of the 20 listed properties covers arch_prctl")
        rep.cov.update({"states": mc["distinct"], "transitions": mc["states"], "traces_validated_against_impl": len(scs), "evaluations": len(proj),
                        "distinct_nontrivial": len({(t["ev"], t["code"], t["readable"], t["pre"]["rax"]) for t in proj if t["ev"] == "sys"}),
                        "abi_deviations_observed": dev, "rule": "case = one syscall instruction under a random registration of built-in handlers",
                        "samples": [scs[0]]})
        return rep.finish()
    finally:
        vlib.cleanup(wd)


def replay(path, seed):
    raise vlib.ToolError("re-run with the same VERIF_SEED")
