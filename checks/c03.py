"""C03 - branches, calls and returns transfer control exactly as hardware does."""
import vlib
import progcommon as pc
import x86common as xc

PROP = "C03"
OWNS = lambda c: c in ("rip", "out-spurious-error", "out-crash", "out-hang")


def mc_cond(wd):
    res = vlib.tlc_mc("MC_Cond", "MC_Cond.cfg", wd, workers=8, timeout=1200)
    vlib.require_mc_ok(res, "MC_Cond")
    return res

PROG_OWNS = lambda c, cls, m: cls == "flow" and c in ("rip", "out-spurious-error", "out-missing-fault")


def run(tier, seed):
    rep = vlib.Report(PROP, tier, seed, "model_checking")
    wd = vlib.workdir("c03")
    try:
        mc = mc_cond(wd)
        q = tier == "quick"
        res = xc.judge(rep, "flow", 48 if q else 2000, seed + 2000, wd, "f", OWNS, jobs=8 if q else 14)
        rep.cov["samples"] = [{"family": "flow", "example": sorted(res.distinct)[:3]}]
        xc.finish_cov(rep, res, mc, "Every Jcc/JMP/CALL/RET/JRCXZ/JECXZ form; rel8 and rel32, forward and backward landing pads, register- and "
                      "memory-indirect targets, RCX in {0,1,2^32,2^32-1<<32,..}; the same pad is stored in both candidate return slots so that "
                      "only the branch semantics is judged here (the stack slot is C04's).")
        pc.phase(rep, tier, seed + 8300, wd, PROG_OWNS)
        return rep.finish()
    finally:
        vlib.cleanup(wd)


def replay(path, seed):
    import json as _j
    _c = _j.load(open(path))["case"]
    if _c.get("prog"):
        _wd = vlib.workdir(PROP.lower() + "r")
        try:
            return pc.replay(vlib.Report(PROP, "quick", seed, "model_checking"), _c, _wd, PROG_OWNS)
        finally:
            vlib.cleanup(_wd)
    return xc.std_replay(PROP, path, seed, OWNS)
