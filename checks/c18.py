"""C18 - trace and call stack describe the executed control flow; rendering is total.
MC: MC_Exec (C18_Log: incremental log == run-length compression of the flow history; C18_Levels; C18_CallStack).
Bind: the model programs + seeded random programs of jumps / conditional jumps / calls / returns (direct and
indirect, balanced or not, runs ending in errors, returns that outnumber calls on a hand-made stack); after every
step the structured trace and call stack are compared by Trace_Exec with Compress(flow) / CallStack(flow), where
the flow history is built from the generator's program table and the logged pre-state flags (an independent
tracer); trace(), call_stack() and to_string() are called after every step and must succeed without changing state."""
import json
import random

import c11
import execcommon as xc
import progcommon as pc
import vlib

PROP = "C18"
PROG_OWNS = lambda c, cls, m: c.endswith("trace-log")


def render_scenarios(rng, n):
    scs = []
    for k in range(n):
        size = rng.choice([3, 4, 6, 8, 12])
        unbalanced = rng.random() < 0.45
        allow = ("jmp", "jcc", "jcc", "call", "ret", "ret", "plain", "push", "pop") if unbalanced else ("jmp", "jcc", "jcc", "call", "call", "ret", "plain", "pop", "push")
        p = xc.random_program(rng, size, allow=allow, fault_p=0.05)
        regs = [rng.choice([0, 1, 2, 3, rng.getrandbits(64)]) for _ in xc.GPRS]
        pre = xc.reg_setup(regs)
        pattern = None
        if unbalanced:
            # a hand-made stack whose every slot holds the address of one instruction: returns that outnumber calls
            # keep running; no init_stack => no "top level"
            pattern = p.addr[rng.randrange(0, len(p.insns) + 1)]
            pre.append({"op": "mem_init_area", "start": xc.STACK, "data": list(pattern.to_bytes(8, "little")) * 64})
            pre.append({"op": "reg_write", "w": 64, "reg": "RSP", "val": xc.STACK + 256})
        else:
            pre.append({"op": "init_stack", "len": 0x200})
        pre.append({"op": "set_rflags", "val": rng.choice([0, 0x40, 0x1, 0x80, 0x800, 0x8c5, 0x4])})
        body = []
        for i in range(rng.choice([6, 12, 25])):
            if rng.random() < 0.06:
                body.append({"op": "reg_write", "w": 64, "reg": "RSP", "val": 0x70000000})      # stack switched to unmapped memory
            body.append({"op": "step"})
            body.append({"op": rng.choice(["trace", "call_stack", "to_string", "trace"])})
        if rng.random() < 0.3:
            # the host (or the guest) overwrites the code afterwards: the log was recorded, rendering it must still succeed
            body += [{"op": "mem_prot", "start": xc.CODE, "prot": 7},
                     {"op": "mem_write_bytes", "addr": xc.CODE, "data": [rng.choice([0x06, 0xff, 0x0f])] * len(p.code)},
                     {"op": "trace"}, {"op": "call_stack"}, {"op": "to_string"}, {"op": "trace"}]
        sc = xc.scenario(f"r{k}", p, pre, body)
        if pattern is not None:
            sc["_ret_pattern"] = pattern
        scs.append(sc)
    return scs


def run(tier, seed):
    rep = vlib.Report(PROP, tier, seed, "model_checking")
    rng = random.Random(seed)
    wd = vlib.workdir("c18")
    try:
        res = c11.mc_phase(wd, tier)
        sc1 = c11.model_scenarios(c11.mbt_edges(wd), rng)
        n1, s1 = xc.validate(sc1, wd, "mdl", rep, 8, owner=PROP)
        q = tier == "quick"
        sc2 = render_scenarios(rng, 200 if q else 4000)
        sd = [s for s in c11.stack_discipline_scenarios(rng) if s["id"].endswith("s0")]      # the hand-written record-vs-stack programs, by steps
        for s in sd:
            body = []
            for a in s["actions"]:
                body.append(a)
                if a.get("op") == "step":
                    body.append({"op": rng.choice(["trace", "call_stack", "to_string"])})
            s["actions"] = body
        sc2 += sd
        n2, s2 = xc.validate(sc2, wd, "rnd", rep, 8 if q else 14, owner=PROP)
        pst = pc.judge_many(rep, 300 if q else 20000, 12, seed + 950, wd, "pg", PROG_OWNS, jobs=8 if q else 14)
        pc.cov(rep, pst)
        rep.cov.update({
            "states": res["distinct"], "transitions": res["states"], "traces_validated_against_impl": s1 + s2,
            "events_validated": n1 + n2, "model_programs_replayed": len(sc1), "evaluations": n1 + n2,
            "distinct_nontrivial": len(sc1) + len({s["_prog"].code for s in sc2}),
            "unbalanced_programs": sum(1 for s in sc2 if "_ret_pattern" in s),
            "rule": "case = one step followed by a rendering call; distinct = distinct programs; ~45% of the random programs run on a "
                    "hand-made stack where returns outnumber calls (negative nesting depth)",
            "samples": [xc.strip(sc2[0]), xc.strip(sc2[1])],
        })
        rep.assumptions += ["TLC evaluates the specification correctly", "flow history built from the generator's program table and logged pre-state",
                            "rendered TEXT is not compared with a reference (the property demands totality of rendering, and the structured log is compared)"]
        return rep.finish()
    finally:
        vlib.cleanup(wd)


def replay(path, seed):
    return c11.replay(path, seed, PROP)
