"""C11 - execution loop: one instruction per step, exact finish and limit conditions, execute == repeated step.
MC: MC_Exec (all abstract programs of N slots x limits x step/execute interleavings; C11_Count, C11_Finished, EdgeLaws).
Bind: every (program, limit) of the model concretised to real bytes and replayed (model history of step/execute);
seeded random programs over ~25 templates (incl. faulting / undecodable / unsupported instructions, indirect
transfers, entry point inside the code) each run three ways: step loop, execute (compared with the step loop's final
state), step loop with extra steps after the end and at the limit.  Every event is validated by Trace_Exec with an
annotation derived from the generator's program table and the logged pre-state."""
import json
import random

import execcommon as xc
import progcommon as pc
import vlib

PROP = "C11"
# of the whole-program verdicts (Trace_Prog), C11 owns the loop bookkeeping and the next-RIP of non-transfer instructions
PROG_OWNS = lambda c, cls, m: c.startswith("C11:") or (c == "rip" and cls == "data")
KINDMAP = {"plain": "nop", "jmp": "jmp32", "call": "call32", "ret": "ret", "fault": "fault", "pop": "pop_rcx"}


def concretise(prog):
    insns = []
    for k in sorted(prog, key=int):
        x = prog[k]
        if x["kind"] == "jcc":
            insns.append({"t": "jcc32", "cc": x["cc"], "tgt": x["tgt"]})
        elif x["kind"] in ("jmp", "call"):
            insns.append({"t": KINDMAP[x["kind"]], "tgt": x["tgt"]})
        else:
            insns.append({"t": KINDMAP[x["kind"]]})
    return xc.Program(insns)


def pre_actions(rng, mx, regvals, stack=True, flags=0x40):
    pre = xc.reg_setup(regvals)
    if stack:
        # lengths that are and are not multiples of 8 / 16: "the stack is empty" must not depend on how the length is rounded
        pre.append({"op": "init_stack", "len": rng.choice([0x200, 0x200, 0x208, 0x1f8, 0x204, 0x1ff, 0x1004, 300])})
    pre.append({"op": "set_rflags", "val": flags})
    if mx is not None and mx >= 0:
        pre.append({"op": "set_max_instructions", "n": mx})
    return pre


def model_scenarios(edges, rng):
    best = {}
    for e in edges:
        key = (json.dumps(e["prog"], sort_keys=True), e["max"], json.dumps(e.get("hooks", [])))
        if key not in best or len(e["hist"]) > len(best[key]["hist"]):
            best[key] = e
    scs = []
    for k, e in enumerate(best.values()):
        prog = e["prog"]
        if isinstance(prog, list):
            prog = {str(i): x for i, x in enumerate(prog)}
        p = concretise(prog)
        regs = [rng.getrandbits(64) for _ in xc.GPRS]
        pre = pre_actions(rng, e["max"], regs)
        for h in e.get("hooks", []):
            pre.append(xc.hook_action(h["hid"], h["when"], h["mnem"], h["ret"], h["stop"], try_register=(h["hid"] % 2 == 1)))
        body = [{"op": h["op"]} for h in e["hist"]]
        scs.append(xc.scenario(f"mdl{k}", p, pre, body))
    return scs


def three_way(rng, k, p, mx, steps, extra, entry=None, hooks=()):
    regs = [rng.getrandbits(64) if rng.random() < 0.5 else rng.choice([0, 1, 2, 3]) for _ in xc.GPRS]
    flags = rng.choice([0, 0x40, 0x1, 0x80, 0x800, 0x8c5, 0x4, 0x41])
    pre = pre_actions(rng, mx, regs, flags=flags) + list(hooks)
    a = xc.scenario(f"p{k}s", p, pre, [{"op": "step"} for _ in range(steps)], entry)
    b = xc.scenario(f"p{k}x", p, pre, [{"op": "execute"}, {"op": "step"}, {"op": "execute"}], entry)
    body = []
    for i in range(steps + extra):
        body.append({"op": "step"})
        if rng.random() < 0.08:
            body.append({"op": "execute"})
        if rng.random() < 0.06:
            # the limit is changed in mid-run: raised, set to the number already executed, or lowered BELOW it
            body.append({"op": "set_max_instructions", "n": rng.choice([0, 1, 2, 3, max(0, i - 1), i, i + 1, i + 2, 50])})
    c = xc.scenario(f"p{k}e", p, pre, body, entry)
    return [a, b, c], {b["id"]: a["id"]}


def random_scenarios(rng, n, hooks_fn=None, fault_p=0.06, syscall_p=0.0, allow=("plain", "plain", "jmp", "jcc", "jcc", "call", "call", "ret", "ret", "pop", "push")):
    scs, refs = [], {}
    for k in range(n):
        size = rng.choice([2, 3, 4, 6, 8, 10])
        p = xc.random_program(rng, size, allow=allow, fault_p=fault_p, syscall_p=syscall_p)
        mx = rng.choice([None, None, 0, 1, 2, 3, 5, 8, 20])
        entry = None
        if rng.random() < 0.2:
            entry = p.addr[rng.randrange(0, len(p.insns))]       # entry point inside the code
        hooks = hooks_fn(rng, p) if hooks_fn else ()
        steps = 40 if mx is None else min(40, mx + 1)
        s3, r = three_way(rng, k, p, mx if mx is not None else 30, steps if mx is not None else 31, rng.choice([1, 2, 3]), entry, hooks)
        scs += s3
        refs.update(r)
    return scs, refs


def stack_discipline_scenarios(rng):
    """programs in which the record of calls and the stack pointer go out of step - deterministically, not by luck:
    a return address popped by hand, a return to a pushed address, calls abandoned and resumed"""
    P = []
    # call L; L: pop rax; ret                      -> the RET finds the stack empty although one call is on record
    P.append([{"t": "call32", "tgt": 1}, {"t": "pop_rax"}, {"t": "ret"}, {"t": "nop"}])
    # mov rax, T; push rax; ret; nop; T: nop       -> the RET returns to T although no call is on record
    P.append([{"t": "mov_rax", "imm": 0, "_fix": 4}, {"t": "push_rax"}, {"t": "ret"}, {"t": "nop"}, {"t": "nop"}, {"t": "ret"}])
    # call f; nop; jmp end; f: ret                 -> balanced
    P.append([{"t": "call32", "tgt": 3}, {"t": "nop"}, {"t": "jmp8", "tgt": 4}, {"t": "ret"}])
    # call f; ret(top); f: pop rcx; push rcx; ret  -> return address taken off and put back
    P.append([{"t": "call32", "tgt": 2}, {"t": "ret"}, {"t": "pop_rcx"}, {"t": "push_rax"}, {"t": "pop_rax"}, {"t": "mov_rax", "imm": 1}, {"t": "nop"}])
    # call f; f: call g; g: pop rax; pop rax; ret  -> two calls on record, stack empty
    P.append([{"t": "call32", "tgt": 1}, {"t": "call32", "tgt": 2}, {"t": "pop_rax"}, {"t": "pop_rax"}, {"t": "ret"}, {"t": "nop"}])
    # call f; nop; ret(top); f: call g; ret; g: pop rcx; ret  -> g returns to f's caller
    P.append([{"t": "call32", "tgt": 3}, {"t": "nop"}, {"t": "ret"}, {"t": "call32", "tgt": 5}, {"t": "ret"}, {"t": "pop_rcx"}, {"t": "ret"}])
    # two push/ret trampolines in a row
    P.append([{"t": "mov_rax", "imm": 0, "_fix": 3}, {"t": "push_rax"}, {"t": "ret"}, {"t": "mov_rax", "imm": 0, "_fix": 6}, {"t": "push_rax"}, {"t": "ret"},
              {"t": "nop"}, {"t": "ret"}])
    # entry at the JMP RAX: first to the ADD before it (backward), then - RAX advanced by 6 - past itself: the same indirect jump twice
    # in a row with different targets and nothing but an ADD between (two log entries, not one with count 2)
    P.append([{"t": "add_rax", "imm": 6}, {"t": "jmp_rax"}, {"t": "nop"}, {"t": "nop"}])
    scs = []
    for k, insns in enumerate(P):
        for variant in range(3):
            ins = [dict(i) for i in insns]
            prog0 = xc.Program([{kk: v for kk, v in i.items() if kk != "_fix"} for i in ins])
            for i in ins:
                if "_fix" in i:
                    i["imm"] = prog0.addr[i.pop("_fix")]
            p = xc.Program(ins)
            regs = [rng.getrandbits(64) for _ in xc.GPRS]
            entry = None
            if ins[1]["t"] == "jmp_rax" and ins[0]["t"] == "add_rax":
                regs[0] = p.addr[0]
                entry = p.addr[1]
            mx = [None, 30, 3][variant]
            pre = pre_actions(rng, mx, regs)
            n = len(ins) + 4
            scs.append(xc.scenario(f"sd{k}s{variant}", p, pre, [{"op": "step"} for _ in range(n)], entry))
            scs.append(xc.scenario(f"sd{k}x{variant}", p, pre, [{"op": "execute"}, {"op": "step"}, {"op": "execute"}], entry))
    return scs


def mc_phase(wd, tier, hookmode=False):
    consts = {"N": "2" if tier == "quick" else "4"}
    if hookmode:
        consts = {"N": "2", "HookMode": '"menu"', "MaxHooks": "3" if tier == "quick" else "4"}
    res = vlib.tlc_mc("MC_Exec", "MC_Exec.cfg", wd, workers=8, constants=consts, timeout=3000, tag="mc" + ("h" if hookmode else ""))
    vlib.require_mc_ok(res, "MC_Exec")
    return res


def mbt_edges(wd, hookmode=False, tier="quick"):
    consts = {"N": "2", "DumpEdges": "TRUE"}
    if hookmode:
        consts.update({"HookMode": '"menu"', "MaxHooks": "2"})
    res = vlib.tlc_mc("MC_Exec", "MC_Exec.cfg", wd, workers=1, coverage=False, constants=consts, tag="mbt" + ("h" if hookmode else ""), timeout=3000)
    vlib.require_mc_ok(res, "MC_Exec (edge dump)")
    if len(res["edges"]) < 200:
        raise vlib.ToolError("edge dump unexpectedly small")
    return res["edges"]


def run(tier, seed, prop=PROP):
    rep = vlib.Report(prop, tier, seed, "model_checking")
    rng = random.Random(seed)
    wd = vlib.workdir(prop.lower())
    try:
        res = mc_phase(wd, tier)
        sc1 = model_scenarios(mbt_edges(wd), rng)
        n1, s1 = xc.validate(sc1, wd, "mdl", rep, 8, owner=prop)
        q = tier == "quick"
        sc2, refs = random_scenarios(rng, 120 if q else 2500)
        sc2 += stack_discipline_scenarios(rng)
        n2, s2 = xc.validate(sc2, wd, "rnd", rep, 8 if q else 14, refs=refs, owner=prop)
        kinds = {(i["t"], i.get("cc")) for s in sc2 for i in s["_prog"].insns}
        if prop == PROP:
            pst = pc.judge_many(rep, 300 if q else 20000, 12, seed + 900, wd, "pg", PROG_OWNS, jobs=8 if q else 14)
            if not q:
                pc.judge_many(rep, 3000, 30, seed + 901, wd, "pl", PROG_OWNS, jobs=14, stats=pst, batch=1500)
            pc.cov(rep, pst)
        rep.cov.update({
            "states": res["distinct"], "transitions": res["states"], "traces_validated_against_impl": s1 + s2,
            "events_validated": n1 + n2, "model_programs_replayed": len(sc1), "evaluations": n1 + n2,
            "distinct_nontrivial": len(sc1) + len({s["_prog"].code for s in sc2}),
            "instruction_templates_used": len(kinds),
            "rule": "case = one step()/execute() call; distinct = distinct (abstract program, limit) pairs of the model + distinct random "
                    "programs; each random program runs three ways (step loop / execute compared with it / extra steps)",
            "samples": [xc.strip(sc1[len(sc1) // 2]), xc.strip(sc2[0])],
        })
        rep.assumptions += ["TLC evaluates the specification correctly",
                            "step annotations (kind, length, target, condition) come from the generator's program table and the logged pre-state",
                            "RIP after a FAILING step is not constrained (the property constrains count/finished, and 'changes nothing' after finish/limit)"]
        return rep.finish()
    finally:
        vlib.cleanup(wd)


def replay(path, seed, prop=PROP):
    rep = vlib.Report(prop, "quick", seed, "model_checking")
    case = json.load(open(path))["case"]
    if case.get("prog"):
        wd = vlib.workdir(prop.lower() + "r")
        try:
            import c18
            return pc.replay(rep, case, wd, PROG_OWNS if prop == PROP else c18.PROG_OWNS)
        finally:
            vlib.cleanup(wd)
    raise vlib.ToolError("replay needs the program table; re-run the check with the same VERIF_SEED instead: " + case["scenario"]["id"])
