"""Shared machinery of C11 / C12 / C18: real x86 programs built from a small template set, scenarios (step loop /
execute / extra steps / hooks / rendering), projection of harness events to Trace_Exec events (an independent
decoder: the annotation of each step comes from the generator's own program table and the logged PRE-state,
never from ax), validation."""
import struct

import vlib
from vlib import model_int

CODE = 0x100000
STACK = 0x8000          # manual stack area for the "returns outnumber calls" scenarios
CC = ["o", "no", "b", "ae", "e", "ne", "be", "a", "s", "ns", "p", "np", "l", "ge", "le", "g"]
CCM = {"o": "Jo", "no": "Jno", "b": "Jb", "ae": "Jae", "e": "Je", "ne": "Jne", "be": "Jbe", "a": "Ja", "s": "Js",
       "ns": "Jns", "p": "Jp", "np": "Jnp", "l": "Jl", "ge": "Jge", "le": "Jle", "g": "Jg"}
GPRS = ["RAX", "RBX", "RCX", "RDX", "RSI", "RDI", "RSP", "RBP", "R8", "R9", "R10", "R11", "R12", "R13", "R14", "R15"]

# template -> (length, kind, mnem)
T = {
    "nop": (1, "plain", "Nop"), "mov_rax": (7, "plain", "Mov"), "mov_rcx": (7, "plain", "Mov"), "inc_rcx": (3, "plain", "Inc"),
    "dec_rcx": (3, "plain", "Dec"), "cmp_rax": (4, "plain", "Cmp"), "cmp_rcx": (4, "plain", "Cmp"), "xor_eax": (2, "plain", "Xor"),
    "test_rcx": (3, "plain", "Test"), "add_rax": (4, "plain", "Add"), "sub_rax": (4, "plain", "Sub"),
    "jmp8": (2, "jmp", "Jmp"), "jmp32": (5, "jmp", "Jmp"), "jcc8": (2, "jcc", None), "jcc32": (6, "jcc", None),
    "jrcxz": (2, "jcc", "Jrcxz"), "jecxz": (3, "jcc", "Jecxz"), "call32": (5, "call", "Call"), "ret": (1, "ret", "Ret"),
    "call_rax": (2, "call", "Call"), "jmp_rax": (2, "jmp", "Jmp"), "syscall": (2, "syscall", "Syscall"),
    "fault": (8, "fault", "Mov"), "invalid": (1, "nofetch", None), "hlt": (1, "nofetch", None),
    # software interrupts behave like syscall: they complete iff a hook is registered for their mnemonic
    "int80": (2, "syscall", "Int"), "int3": (1, "syscall", "Int3"), "int1": (1, "syscall", "Int1"),
    # explicit stack traffic: the record of calls and the stack pointer go out of step (a return address popped by hand,
    # a return to a pushed address)
    "push_rax": (1, "push", "Push"), "pop_rax": (1, "pop", "Pop"), "pop_rcx": (1, "pop", "Pop"),
}
# register-only instructions of the remaining supported mnemonics (they always complete): every mnemonic occurs in programs, so
# that "hooks of other mnemonics are never invoked" is exercised over all pairs
MORE = {
    "and_rr": ("4821d8", "And"), "imul_rr": ("480fafc3", "Imul"), "cdq": ("99", "Cdq"), "cdqe": ("4898", "Cdqe"), "cqo": ("4899", "Cqo"),
    "cwd": ("6699", "Cwd"), "cld": ("fc", "Cld"), "cmovae_rr": ("480f43c3", "Cmovae"), "cmove_rr": ("480f44c3", "Cmove"),
    "cmovne_rr": ("480f45c3", "Cmovne"), "lea_rr": ("488d041b", "Lea"), "movzx_rr": ("0fb6c3", "Movzx"), "movsxd_rr": ("4863c3", "Movsxd"),
    "mul_r": ("48f7e3", "Mul"), "neg_r": ("48f7d8", "Neg"), "not_r": ("48f7d0", "Not"), "setb_r": ("0f92c0", "Setb"), "sete_r": ("0f94c0", "Sete"),
    "setne_r": ("0f95c0", "Setne"), "shl_r1": ("48d1e0", "Shl"), "shr_r1": ("48d1e8", "Shr"), "adc_rr": ("4811d8", "Adc"), "cpuid": ("0fa2", "Cpuid"),
    "endbr64": ("f30f1efa", "Endbr64"), "movd_xr": ("660f6ec0", "Movd"), "xorps_xx": ("0f57c1", "Xorps"), "movups_xx": ("0f10c1", "Movups"),
}
for _k, (_h, _m) in MORE.items():
    T[_k] = (len(_h) // 2, "plain", _m)
ALL_MNEMONICS = sorted({v[2] for v in T.values() if v[2]} | set(CCM.values()) | {"Div", "Idiv", "Lea", "Int1"})


class Program:
    """insns: list of dicts {t: template, cc?, imm?, tgt?: index of the target instruction (len(insns) = code end)}"""

    def __init__(self, insns, base=CODE):
        self.insns = insns
        self.base = base
        self.addr = []
        a = base
        for ins in insns:
            self.addr.append(a)
            a += T[ins["t"]][0]
        self.end = a
        self.addr.append(a)
        self.table = {}
        code = bytearray()
        for k, ins in enumerate(insns):
            ln, kind, mnem = T[ins["t"]]
            ip = self.addr[k]
            nxt = ip + ln
            tgt = self.addr[ins["tgt"]] if "tgt" in ins else 0
            b = self.encode(ins, nxt, tgt)
            assert len(b) == ln, (ins, len(b), ln)
            code += b
            cc = ins.get("cc", "")
            if ins["t"] == "jrcxz":
                cc = "rcxz"
            elif ins["t"] == "jecxz":
                cc = "ecxz"
            self.table[ip] = {"t": ins["t"], "kind": kind, "ip": ip, "next": nxt, "target": tgt, "cc": cc,
                              "mnem": mnem or CCM.get(cc, "")}
        self.code = bytes(code)

    @staticmethod
    def encode(ins, nxt, tgt):
        t = ins["t"]
        imm = ins.get("imm", 0)
        rel = tgt - nxt
        if t == "nop": return b"\x90"
        if t == "mov_rax": return b"\x48\xc7\xc0" + struct.pack("<i", imm)
        if t == "mov_rcx": return b"\x48\xc7\xc1" + struct.pack("<i", imm)
        if t == "inc_rcx": return b"\x48\xff\xc1"
        if t == "dec_rcx": return b"\x48\xff\xc9"
        if t == "cmp_rax": return b"\x48\x83\xf8" + struct.pack("<b", imm)
        if t == "cmp_rcx": return b"\x48\x83\xf9" + struct.pack("<b", imm)
        if t == "xor_eax": return b"\x31\xc0"
        if t == "test_rcx": return b"\x48\x85\xc9"
        if t == "add_rax": return b"\x48\x83\xc0" + struct.pack("<b", imm)
        if t == "sub_rax": return b"\x48\x83\xe8" + struct.pack("<b", imm)
        if t == "jmp8": return b"\xeb" + struct.pack("<b", rel)
        if t == "jmp32": return b"\xe9" + struct.pack("<i", rel)
        if t == "jcc8": return bytes([0x70 + CC.index(ins["cc"])]) + struct.pack("<b", rel)
        if t == "jcc32": return bytes([0x0f, 0x80 + CC.index(ins["cc"])]) + struct.pack("<i", rel)
        if t == "jrcxz": return b"\xe3" + struct.pack("<b", rel)
        if t == "jecxz": return b"\x67\xe3" + struct.pack("<b", rel)
        if t == "call32": return b"\xe8" + struct.pack("<i", rel)
        if t == "ret": return b"\xc3"
        if t == "call_rax": return b"\xff\xd0"
        if t == "jmp_rax": return b"\xff\xe0"
        if t == "syscall": return b"\x0f\x05"
        if t == "fault": return b"\x48\x8b\x04\x25\x00\x00\x00\x00"
        if t == "invalid": return b"\x06"
        if t == "hlt": return b"\xf4"
        if t == "int80": return b"\xcd\x80"
        if t == "int3": return b"\xcc"
        if t == "int1": return b"\xf1"
        if t == "push_rax": return b"\x50"
        if t == "pop_rax": return b"\x58"
        if t == "pop_rcx": return b"\x59"
        if t in MORE: return bytes.fromhex(MORE[t][0])
        raise ValueError(t)


def random_program(rng, n, allow=("plain", "jmp", "jcc", "call", "ret"), fault_p=0.0, syscall_p=0.0, backward=True):
    """a random program of n instructions; branch targets are instruction starts or the code end.
    call_rax / jmp_rax are emitted as `mov rax, <target>` + the indirect instruction."""
    insns = []
    plain = ["nop", "mov_rax", "mov_rcx", "inc_rcx", "dec_rcx", "cmp_rax", "cmp_rcx", "xor_eax", "test_rcx", "add_rax", "sub_rax"] * 2 + sorted(MORE)
    pend_fix = []     # (index of mov_rax, index of target instruction) for indirect transfers
    while len(insns) < n:
        k = len(insns)
        u = rng.random()
        if u < fault_p:
            insns.append({"t": rng.choice(["fault", "invalid", "hlt"])})
            continue
        if u < fault_p + syscall_p:
            insns.append({"t": rng.choice(["syscall", "syscall", "int80", "int3", "int1"])})
            continue
        kind = rng.choice(allow)
        lo = 0 if backward else k + 1
        tgt = rng.randrange(lo, n + 1)
        if kind == "plain":
            t = rng.choice(plain)
            ins = {"t": t}
            if t in ("mov_rax", "mov_rcx"):
                ins["imm"] = rng.choice([0, 1, 2, 3, -1, 5, 0x7fffffff, -0x80000000])
            elif t in ("cmp_rax", "cmp_rcx", "add_rax", "sub_rax"):
                ins["imm"] = rng.choice([0, 1, 2, 3, -1, 127, -128])
            insns.append(ins)
        elif kind == "jmp":
            t = rng.choice(["jmp8", "jmp32", "jmp_rax"])
            if t == "jmp_rax":
                insns.append({"t": "mov_rax", "imm": 0, "_fix": tgt})
                insns.append({"t": "jmp_rax"})
            else:
                insns.append({"t": t, "tgt": tgt})
        elif kind == "jcc":
            t = rng.choice(["jcc8", "jcc32", "jcc8", "jcc32", "jrcxz", "jecxz"])
            ins = {"t": t, "tgt": tgt}
            if t in ("jcc8", "jcc32"):
                ins["cc"] = rng.choice(CC)
            insns.append(ins)
        elif kind == "call":
            if rng.random() < 0.3:
                insns.append({"t": "mov_rax", "imm": 0, "_fix": tgt})
                insns.append({"t": "call_rax"})
            else:
                insns.append({"t": "call32", "tgt": tgt})
        elif kind == "ret":
            insns.append({"t": "ret"})
        elif kind == "pop":
            insns.append({"t": rng.choice(["pop_rax", "pop_rcx"])})
        elif kind == "push":
            if rng.random() < 0.5:
                insns.append({"t": "mov_rax", "imm": 0, "_fix": tgt})      # push <address of an instruction> (... ; ret)
            insns.append({"t": "push_rax"})
    n2 = len(insns)
    for ins in insns:
        if "tgt" in ins:
            ins["tgt"] = min(ins["tgt"], n2)
    # resolve indirect targets (addresses are known once the layout is fixed: all lengths are fixed per template)
    p = Program([{k: v for k, v in i.items() if k != "_fix"} for i in insns])
    for i in insns:
        if "_fix" in i:
            i["imm"] = p.addr[min(i.pop("_fix"), n2)]
    return Program(insns)


def reg_setup(rng_vals):
    return [{"op": "reg_write", "w": 64, "reg": r, "val": v} for r, v in zip(GPRS, rng_vals) if r != "RSP"]


def hook_action(hid, when, mnem, ret="unhandled", stop=False, try_register=False, mark=True):
    does = []
    if mark:
        does.append({"op": "reg_write", "w": 64, "reg": f"R{8 + hid % 8}", "val": 1000 + hid})
    if stop:
        does.append({"op": "stop"})
    if try_register:
        does.append({"op": "try_register", "when": "before", "mnem": mnem})
        does.append({"op": "try_register", "when": "after", "mnem": "Nop"})
        does.append({"op": "try_handle_syscalls"})
        # ... and for mnemonics that complete only if a hook exists: a REFUSED registration must leave no trace
        for m2 in ("Syscall", "Int", "Int3", "Int1"):
            does.append({"op": "try_register", "when": "before" if (hid + len(m2)) % 2 else "after", "mnem": m2})
    return {"op": "hook", "when": when, "mnem": mnem, "hid": hid, "ret": ret, "stop": stop, "does": does, "mark": mark}


OBS = ["regs", "fl", "exec", "trace"]


def scenario(sid, prog, pre, body, entry=None):
    acts = [{"op": "new", "code": list(prog.code), "start": prog.base, "rip": entry if entry is not None else prog.base}]
    acts += pre + body
    return {"id": sid, "obs": OBS, "actions": acts, "_prog": prog}


def strip(sc):
    return {k: v for k, v in sc.items() if not k.startswith("_")}


def fl_bits(fl, regs):
    return {"cf": fl & 1, "pf": (fl >> 2) & 1, "zf": (fl >> 6) & 1, "sf": (fl >> 7) & 1, "of": (fl >> 11) & 1,
            "rcxz": 1 if regs["RCX"] == 0 else 0, "ecxz": 1 if (regs["RCX"] & 0xffffffff) == 0 else 0}


VAR = {0: "call", 1: "ret", 2: "jump"}
BLANK_ANN = {"kind": "none", "ip": 0, "next": 0, "target": 0, "cc": "", "mnem": "", "sh": 0}
BLANK_FL = {"cf": 0, "pf": 0, "zf": 0, "sf": 0, "of": 0, "rcxz": 0, "ecxz": 0}
BLANK_HOOK = {"hid": -1, "when": "", "mnem": "", "ret": "", "stop": False}


def mi(v):
    m = model_int(v)
    return m if m is not None else -2      # an address outside the model windows: never equal to a planned one


def obs_fields(e):
    o = e.get("obs", {})
    if "rip" not in o or "regs" not in o:
        return None
    return {
        "obs": {"rip": mi(o["rip"]), "count": mi(o["count"]), "finished": o["finished"], "max": o["max"] if o["max"] < (1 << 30) else (1 << 30),
                "code_end": mi(o["code_end"]), "running": o["running"]},
        "trace": [{"ip": mi(t["ip"]), "target": mi(t["target"]), "var": VAR[t["var"]], "level": t["level"],
                   "count": mi(t["count"])} for t in o["trace"]],
        "cs": [mi(x) for x in o["call_stack"]],
        "regsdigest": ",".join(f"{o['regs'][r]:x}" for r in GPRS) + f";{o['fl']:x}",
    }


def project(scenarios, events, rep, refs=None):
    """refs: {scenario id -> scenario id of its step-loop twin} for execute scenarios"""
    order, by = vlib.split_by_scenario(events)
    scn = {s["id"]: s for s in scenarios}
    out = {}
    final = {}     # sid -> (k, ObsOf) at the end of a step-loop run (if it ran to its end)
    for sid in order:
        sc = scn[sid]
        prog = sc["_prog"]
        acts = sc["actions"]
        evs = by[sid]
        shadow = []       # tracer's own stack of the values pushed by CALL / PUSH (None = not a model-sized address)
        lost = False      # a RET / POP went above the initial stack level: what it reads is not known to the tracer
        stack_top = None  # RSP as init_stack left it
        stack_ranges = []  # [start, end) of memory the program may use as stack
        hasstack = False
        pattern = sc.get("_ret_pattern")
        res = []
        prev_o = None
        ended = None
        hooks = {}
        for e in evs:
            r = e.get("res", {})
            k = r.get("k", "harness")
            if k == "harness":
                raise vlib.ToolError(f"harness error in {sid}#{e.get('i')}: {r}")
            if e["ev"] == "worker":
                rep.finding(f"worker/{k}", {"scenario": strip(sc)})
                continue
            a = acts[e["i"]]
            of = obs_fields(e)
            t = {"ev": e["ev"] if e["ev"] in ("new", "step", "execute", "hook", "trace", "call_stack", "to_string", "init_stack") else "other",
                 "sc": sid, "i": e["i"], "k": k, "v": bool(r.get("v")) if e["ev"] == "step" and k == "ok" else False,
                 "hasobs": of is not None, "ann": dict(BLANK_ANN), "fl": dict(BLANK_FL), "hl": [], "marks": [],
                 "hook": dict(BLANK_HOOK), "hasref": False, "ref": {"k": "", "obs": {}}, "planned_end": prog.end}
            t.update(of or {"obs": {"rip": 0, "count": 0, "finished": False, "max": -1, "code_end": 0, "running": False},
                            "trace": [], "cs": [], "regsdigest": ""})
            if e["ev"] == "init_stack" and k == "ok":
                hasstack = True
                shadow = []
                stack_ranges.append((r["v"], r["v"] + a["len"]))
                stack_top = e.get("obs", {}).get("regs", {}).get("RSP")
            if e["ev"] == "mem_init_area" and k == "ok":
                stack_ranges.append((a["start"], a["start"] + len(a["data"])))
            if e["ev"] == "hook":
                t["hook"] = {"hid": a["hid"], "when": a["when"], "mnem": a["mnem"], "ret": a.get("ret", "unhandled"), "stop": a.get("stop", False)}
                if k == "ok":
                    hooks[a["hid"]] = a
            if e["ev"] == "step" and prev_o is not None:
                pre = prev_o
                rip = pre["rip"]
                ent = prog.table.get(rip)
                executable = prog.base <= rip < prog.end
                if ent is None or not executable:
                    ann = dict(BLANK_ANN, kind="nofetch", ip=mi(rip), next=mi(rip))
                else:
                    ann = {"kind": ent["kind"], "ip": ent["ip"], "next": ent["next"], "target": ent["target"], "cc": ent["cc"], "mnem": ent["mnem"], "sh": 0}
                    if ent["t"] in ("call_rax", "jmp_rax"):
                        ann["target"] = mi(pre["regs"]["RAX"])
                    if ent["kind"] == "ret":
                        if shadow:
                            ann["target"] = shadow[-1]
                        elif pattern is not None:
                            ann["target"] = pattern
                # stack height in slots above the level init_stack left (0 = "the stack is empty")
                if hasstack and stack_top is not None:
                    d = stack_top - pre["regs"]["RSP"]
                    ann["sh"] = 0 if d == 0 else (d // 8 if d > 0 and d % 8 == 0 and d < (1 << 20) else -1)
                # a CALL / PUSH / RET / POP whose stack slot is not mapped faults.  The slot is [rsp-8, rsp) / [rsp, rsp+8) on
                # hardware and [rsp, rsp+8) / [rsp+8, rsp+16) under ax's documented convention (KNOWN_FINDINGS C04): unmapped
                # under both => fault; mapped under exactly one => not judged; a top-level RET reads nothing.
                rsp = pre["regs"]["RSP"]
                inside = lambda a0: any(lo <= a0 and a0 + 8 <= hi for lo, hi in stack_ranges)
                toplevel = ann["kind"] == "ret" and hasstack and ann["sh"] == 0
                if ann["kind"] in ("call", "push", "ret", "pop") and not toplevel:
                    a_hw, a_ax = (rsp - 8, rsp) if ann["kind"] in ("call", "push") else (rsp, rsp + 8)
                    if not inside(a_hw) and not inside(a_ax):
                        ann["kind"] = "fault"
                    elif inside(a_hw) != inside(a_ax):
                        ann["kind"] = "skip"
                        lost = True
                if ann["kind"] in ("ret", "pop") and pattern is None and not toplevel and (lost or not shadow):
                    # above the initial stack level: reads memory the tracer does not know
                    lost = True
                    ann["kind"] = "skip"
                t["ann"] = ann
                t["fl"] = fl_bits(pre["fl"], pre["regs"])
                # tracer state follows the architecture: the effect happened iff the count advanced
                o = e.get("obs", {})
                if ann["kind"] != "nofetch" and o.get("count") == pre["count"] + 1:
                    if ann["kind"] == "call":
                        shadow.append(ann["next"])
                    elif ann["kind"] == "push":
                        shadow.append(mi(pre["regs"]["RAX"]))
                    elif ann["kind"] == "pop" and shadow:
                        shadow.pop()
                    elif ann["kind"] == "ret" and not (hasstack and ann["sh"] == 0) and shadow:
                        shadow.pop()
                for h in e.get("hooklog", []):
                    inner = [x for x in h.get("inner", []) if x["op"] in ("try_register", "try_handle_syscalls")]
                    t["hl"].append({"hid": h["hid"], "when": h["when"], "rip": mi(h["rip"]), "count": mi(h["count"]),
                                    "inner_refused": all(x["res"].get("k") == "err" for x in inner)})
                for hid, ha in hooks.items():
                    if ha.get("mark") and "regs" in o:
                        v = o["regs"][f"R{8 + hid % 8}"]
                        # only the most recently registered hook of a mark register can be judged
                        if all(not (h2 != hid and h2 % 8 == hid % 8) for h2 in hooks):
                            t["marks"].append({"hid": hid, "val": v if v < (1 << 30) else -1, "want": 1000 + hid})
                if ended is None and (k != "ok" or (of and of["obs"]["finished"])):
                    ended = (k, t)
            if e["ev"] == "execute" and refs and sid in refs and refs[sid] in final and not any(x["ev"] == "execute" for x in res):
                fk, ft = final[refs[sid]]
                t["hasref"] = True
                t["ref"] = {"k": fk, "obs": {"o": ft["obs"], "trace": ft["trace"], "cs": ft["cs"], "regs": ft["regsdigest"]}}
            if "rip" in e.get("obs", {}):
                prev_o = e["obs"]
            res.append(t)
        if ended is not None:
            final[sid] = ended
        out[sid] = res
    return order, by, out


def validate(scenarios, wd, tag, rep, jobs, refs=None, owner=None):
    """owner: property id; verdict components of other properties (prefix 'Cxx:') are reported only if owner is None
    or matches (each of C11/C12/C18 judges its own components; 'crash' counts for every one of them)."""
    events = vlib.run_scenarios([strip(s) for s in scenarios], wd, tag)
    order, by, proj = project(scenarios, events, rep, refs)
    scn = {s["id"]: s for s in scenarios}
    groups = vlib.chunks(order, jobs)
    chunks = [[t for sid in g for t in proj.get(sid, [])] for g in groups if g]
    verdicts = vlib.tlc_trace_parallel("Trace_Exec", "Trace_Exec.cfg", [c for c in chunks if c], wd, tag, jobs)
    others = {}
    for v in verdicts:
        sc, i, ev, comps = vlib.parse_tla_tuple(v)
        mine = sorted(c for c in comps if owner is None or c.startswith(owner + ":") or ":" not in c)
        for c in comps:
            if c not in mine:
                others[c] = others.get(c, 0) + 1
        if not mine:
            continue
        e = by[sc][i] if i < len(by[sc]) else {}
        a = scn[sc]["actions"][i]
        ann = [t for t in proj[sc] if t["i"] == i][0]["ann"]
        key = f"{a['op']}/{ann['kind']}/{'+'.join(mine)}"
        rep.finding(key, {"scenario": strip(scn[sc]), "failing_action": i, "annotation": ann,
                          "event": {k: v for k, v in e.items() if k != "obs"}})
    for c, n in sorted(others.items()):
        vlib.log(f"  note: {n} verdict(s) with component {c} belong to another property's check and are not judged here")
    return sum(len(v) for v in proj.values()), len(order)
