"""C19 - a step on arbitrary code bytes and state terminates with success or an error.
MC: MC_Encoding enumerates every shape class of the encoding grammar (prefixes x REX x opcode map x ModRM/SIB class x
immediate size x implemented/any opcode); the step relation on arbitrary bytes is total with outcomes {ok, err}.
Bind: for every class the harness fills the free bits at random, plus uniform random strings of 1..15 bytes and
mutated valid encodings (prefix inserted, bit flipped, truncated, REX prepended), each over a random register /
flag state (registers often pointing into mapped memory, RSP at the top of the address space); one step() under
catch_unwind, a watchdog for hangs, a supervisor for aborts.  TLC validates every outcome against totality."""
import json
import os
import random
import subprocess

import vlib
import x86common as xc

PROP = "C19"


def run_bytes(classes, seed, per_class, uniform, mutated, wd, tag):
    cpath = os.path.join(wd, tag + ".classes.ndjson")
    with open(cpath, "w") as f:
        for c in classes:
            f.write(json.dumps(c) + "\n")
    out = os.path.join(wd, tag + ".out.ndjson")
    skip = 0
    synthetic = []
    for _ in range(500):
        cmd = [vlib.AXV, "bytes", cpath, str(seed), str(per_class), str(uniform), str(mutated), xc.FORMS, out, "--skip", str(skip)]
        try:
            p = subprocess.run(cmd, timeout=3600, stdout=subprocess.DEVNULL, stderr=subprocess.PIPE)
        except subprocess.TimeoutExpired:
            raise vlib.ToolError("bytes driver timed out")
        if p.returncode == 0:
            break
        if p.returncode == 2:
            raise vlib.ToolError("bytes driver failed: " + p.stderr.decode(errors="replace")[-300:])
        # the worker died (abort / signal) or the watchdog fired (3): the case in flight is the last 'begin' without a result
        lines = open(out).read().splitlines()
        last_begin = None
        for l in reversed(lines):
            d = json.loads(l)
            if d.get("begin"):
                last_begin = d["c"]
                break
            else:
                break
        if last_begin is None:
            raise vlib.ToolError(f"bytes driver died (rc={p.returncode}) outside a case")
        synthetic.append({"c": last_begin, "cls": "?", "bytes": [], "out": "hang" if p.returncode == 3 else "abort", "msg": f"rc={p.returncode}",
                          "maxalloc": 0, "alloclimit": 1})
        skip = last_begin + 1
    else:
        raise vlib.ToolError("too many worker restarts")
    res = {}
    for l in open(out):
        d = json.loads(l)
        if not d.get("begin"):
            res[d["c"]] = d
    for s in synthetic:
        res[s["c"]] = s
    return [res[k] for k in sorted(res)]


def run(tier, seed):
    rep = vlib.Report(PROP, tier, seed, "exploration")
    wd = vlib.workdir("c19")
    try:
        mc = vlib.tlc_mc("MC_Encoding", "MC_Encoding.cfg", wd, workers=4, constants={"DumpEdges": "TRUE"}, coverage=False, timeout=1200)
        vlib.require_mc_ok(mc, "MC_Encoding")
        classes = mc["edges"]
        if len(classes) < 10000:
            raise vlib.ToolError(f"class dump unexpectedly small ({len(classes)})")
        q = tier == "quick"
        evs = run_bytes(classes, seed, 1 if q else 20, 20000 if q else 500000, 20000 if q else 500000, wd, "b")
        proj = [{"c": e["c"], "cls": e["cls"], "out": e["out"], "maxalloc": 0, "alloclimit": 1} for e in evs]
        verdicts = vlib.tlc_trace_parallel("Trace_Total", "Trace_Total.cfg", vlib.chunks(proj, 8 if q else 14), wd, "t", 8 if q else 14, timeout=3000)
        byid = {e["c"]: e for e in evs}
        for v in verdicts:
            cid, _, cls, comps = vlib.parse_tla_tuple(v)
            e = byid[cid]
            msg = (e.get("msg") or "")[:60]
            rep.finding(f"{'+'.join(sorted(comps))}/{msg}", {"bytes": e["bytes"], "hex": bytes(e["bytes"]).hex(), "class": e["cls"], "message": e.get("msg"),
                                                             "regs": e.get("regs"), "fl": e.get("fl"), "seed": seed, "case": cid})
        # valid encodings with class-specific extreme operands and placements (the generators of C01-C06), ax only:
        # any crash or hang is a C19 violation as well
        nvalid = 0
        for fam, per in (("fault", 10 if q else 120), ("data", 4 if q else 60), ("flow", 4 if q else 40), ("stack", 4 if q else 40), ("ea", 4 if q else 40)):
            ax, _, meta = xc.run_family(fam, per, seed + 7000, wd, "v" + fam, native=False)
            nvalid += len(ax)
            for e in ax:
                if e["out"] in ("crash", "hang"):
                    m = meta[e["c"]]
                    rep.finding(f"valid-encoding-{e['out']}/{m['code']}/{(m['msg'] or '')[:50]}",
                                {"family": fam, "seed": seed + 7000, "case": e["c"], "instruction": m["text"], "bytes": m["bytes"], "pre": m["pre"], "message": m["msg"]})
        # whole programs (Trace_Prog): a crash at any step of a program - also after stray returns, at unfetchable addresses - is C19's
        import progcommon as pc
        pc.phase(rep, tier, seed + 8900, wd, lambda c, cls, m: c == "out-crash", quick_n=300, thorough_n=6000)
        rep.cov["valid_encoding_cases"] = nvalid
        outs = {}
        for e in evs:
            outs[e["out"]] = outs.get(e["out"], 0) + 1
        rep.cov.update({
            "evaluations": len(evs) + nvalid, "distinct_nontrivial": len({(e["cls"], e["out"]) for e in evs}),
            "shape_classes": len(classes), "outcomes": outs,
            "states": mc["distinct"], "transitions": mc["states"],
            "rule": "case = one step() on a byte string; shape-class cases = every class of spec/Encoding.tla with free bits random; "
                    "distinct = distinct (shape class | uniform | mutated, outcome) pairs",
            "samples": [{"hex": bytes(e["bytes"]).hex(), "class": e["cls"], "out": e["out"]} for e in evs[:3] + evs[-3:]],
        })
        rep.assumptions += ["a panic raised by fatal_error!/opcode_unimplemented! is an Err under cfg(ax_verif), as on wasm32",
                            "2^120 byte strings cannot be enumerated: the grammar's shape classes are, values are sampled (exploration level)"]
        return rep.finish()
    finally:
        vlib.cleanup(wd)


def replay(path, seed):
    rep = vlib.Report(PROP, "quick", seed, "exploration")
    raise vlib.ToolError("re-run the check with VERIF_SEED=" + str(json.load(open(path))["case"]["seed"]))
