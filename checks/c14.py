"""C14 - the built-in pipe handler implements FIFO byte streams.
MC: MC_Pipe (history variables written/readout; C14_Fifo prefix invariant, conservation, disjointness, ReadLaw).
Bind: guest `syscall` instructions (pipe / read / write) through the built-in handler with a user Syscall hook
registered after it; random interleavings over up to 3 pipes, both directions on both ends, non-pipe descriptors,
sizes 0..40 incl. more than available, unreadable source / unwritable destination; descriptor numbers are taken
from the log.  Model edges are replayed the same way.  Validated by Trace_Pipe (per-call rules + the FIFO history
statement on the recorded run)."""
import json
import random

import vlib

PROP = "C14"
CODE, DATA, RO = 0x100000, 0x2000, 0x3000
FDP = DATA + 0x100


class PB:
    def __init__(self, sid, nsys):
        self.sid = sid
        self.acts = [{"op": "new", "code": [0x0f, 0x05] * nsys + [0x90] * 4, "start": CODE, "rip": CODE, "maxbytes": 800},
                     {"op": "mem_init_zero", "start": DATA, "len": 0x200}, {"op": "mem_init_zero", "start": RO, "len": 64},
                     {"op": "mem_prot", "start": RO, "prot": 1},
                     {"op": "handle_syscalls", "list": ["Pipe"]},
                     {"op": "hook", "when": "before", "mnem": "Syscall", "hid": 1, "ret": "unhandled", "stop": False, "does": []}]
        self.pipes = []      # (ref index of read end, ref index of write end)
        self.seq = 1

    def sys(self, rax, rdi, rsi, rdx, ann):
        for reg, v in (("RAX", rax), ("RDI", rdi), ("RSI", rsi), ("RDX", rdx)):
            self.acts.append({"op": "reg_write", "w": 64, "reg": reg, "val": v})
        self.acts.append({"op": "step", "pcall": ann})

    def pipe(self):
        at = FDP + 16 * len(self.pipes)
        self.sys(22, at, 0, 0, {"kind": "pipe", "at": at})
        self.acts.append({"op": "mem_read", "w": 64, "addr": at})
        r = len(self.acts) - 1
        self.acts.append({"op": "mem_read", "w": 64, "addr": at + 8})
        self.pipes.append((r, r + 1))

    def fd(self, rng):
        u = rng.random()
        if self.pipes and u < 0.8:
            p = rng.choice(self.pipes)
            return p, None
        return None, rng.choice([0, 1, 2, 5, 7777, 1023])

    def write(self, rng, fdref, n, src=None):
        data = [(self.seq + i) % 251 + 1 for i in range(n)]
        self.seq += n
        src = DATA + rng.choice([0, 8, 64]) if src is None else src
        if src < 0x8000 and n:
            inside = max(0, min(n, DATA + 0x200 - src))          # a source that runs over the end of its area: only the prefix can be prepared
            if inside:
                self.acts.append({"op": "mem_write_bytes", "addr": src, "data": data[:inside]})
        self.sys(1, fdref, src, n, {"kind": "write", "fd": fdref, "n": n, "data": data, "src": src})

    def read(self, rng, fdref, n, dst=None):
        dst = DATA + rng.choice([128, 136, 160]) if dst is None else dst
        self.sys(0, fdref, dst, n, {"kind": "read", "fd": fdref, "n": n, "dst": dst})

    def scenario(self):
        return {"id": self.sid, "obs": ["regs", "sys", "bytes"], "actions": [dict(a, maxbytes=800) for a in self.acts]}


def random_scenarios(rng, n, length):
    scs = []
    for k in range(n):
        b = PB(f"p{k}", length + 4)
        b.pipe()
        for _ in range(length):
            u = rng.random()
            if u < 0.12 and len(b.pipes) < 3:
                b.pipe()
                continue
            p, other = b.fd(rng)
            if u < 0.55:
                fdref = {"ref": p[1] if rng.random() < 0.85 else p[0]} if p else other      # mostly the write end; sometimes the read end
                src = None if rng.random() < 0.90 else rng.choice([0x9000, DATA + 0x200 - 1, DATA + 0x200 - 2, DATA + 0x200 - 4, DATA + 0x200 - 8])   # unmapped source / source running over the end of its area
                b.write(rng, fdref, rng.choice([0, 1, 2, 3, 5, 8, 13, 40]), src)
            else:
                fdref = {"ref": p[0] if rng.random() < 0.85 else p[1]} if p else other
                dst = None if rng.random() < 0.90 else rng.choice([RO, 0x9000, DATA + 0x200 - 1, DATA + 0x200 - 3, DATA + 0x200 - 8])
                # now and then a request far beyond anything buffered (a read returns min(request, available) whatever the request)
                n_req = rng.choice([0, 1, 2, 3, 4, 8, 16, 64]) if rng.random() < 0.9 else rng.choice([1 << 31, 1 << 32, 1 << 40, 0x7ffff001, (1 << 32) + 5, 1 << 63])
                b.read(rng, fdref, n_req, dst)
        scs.append(b.scenario())
    return scs


def edge_scenarios(edges):
    scs = []
    for k, e in enumerate(edges):
        ops = e["hist"]
        b = PB(f"e{k}", len(ops) + 2)
        for h in ops:
            if h["op"] == "pipe":
                b.pipe()
                continue
            fd = h["fd"]
            if fd in (0, 99):
                ref = fd
            else:
                pi = (fd - 1) // 2
                if pi >= len(b.pipes):
                    ref = 4242            # descriptor of a pipe that does not exist (yet)
                else:
                    ref = {"ref": b.pipes[pi][0] if fd % 2 == 1 else b.pipes[pi][1]}
            if h["op"] == "write":
                b.write(random.Random(k), ref, len(h["data"]))
            else:
                b.read(random.Random(k), ref, h["n"])
        scs.append(b.scenario())
    return scs


def area_bytes(obs, addr, n):
    for a in obs.get("areas", []):
        if a["start"] <= addr and addr + n <= a["start"] + a["len"] and "data" in a:
            o = addr - a["start"]
            return a["data"][o:o + n]
    return None


def resolve(evs, v):
    if isinstance(v, dict):
        return evs[v["ref"]]["res"].get("v", -1)
    return v


BLANK = {"fd": -1, "n": 0, "data": [], "rax": 0, "memfds": [], "userhook": False, "srcok": True, "dstroom": 0, "dstmapped": False, "got": [], "before": []}


def project(scenarios, events, rep):
    order, by = vlib.split_by_scenario(events)
    scn = {s["id"]: s for s in scenarios}
    out = {}
    for sid in order:
        evs = by[sid]
        acts = scn[sid]["actions"]
        res = []
        prev = None
        for e in evs:
            r = e.get("res", {})
            k = r.get("k", "harness")
            if k == "harness":
                raise vlib.ToolError(f"harness error in {sid}#{e.get('i')}: {r}")
            if e["ev"] == "worker":
                rep.finding(f"worker/{k}", {"scenario": scn[sid]})
                continue
            o = e.get("obs", {})
            t = dict(BLANK)
            t.update({"ev": "other", "sc": sid, "i": e["i"], "k": k, "hasobs": "pipe_ends" in o,
                      "ends": o.get("pipe_ends", []), "bufs": o.get("pipe_bufs", [])})
            a = acts[e["i"]]
            if e["ev"] == "new":
                t["ev"] = "new"
            if e["ev"] == "step" and "pcall" in a and prev is not None:
                pc = a["pcall"]
                t["ev"] = pc["kind"]
                rax = o.get("regs", {}).get("RAX", 0)
                t["rax"] = rax if rax < (1 << 30) else -1
                t["userhook"] = any(h.get("hid") == 1 for h in e.get("hooklog", []))
                if pc["kind"] == "pipe":
                    m = area_bytes(o, pc["at"], 16)
                    t["memfds"] = [vlib.from_le(m[:8]) % (1 << 30), vlib.from_le(m[8:]) % (1 << 30)] if m else []
                else:
                    fd = resolve(evs, pc["fd"])
                    t["fd"] = fd if 0 <= fd < (1 << 30) else -1
                    t["n"] = min(pc["n"], 1 << 30)            # model image of "more than anything buffered / mapped"
                    if pc["kind"] == "write":
                        t["data"] = pc["data"]
                        t["srcok"] = DATA <= pc["src"] and pc["src"] + pc["n"] <= DATA + 0x200
                    else:
                        room = min(pc["n"], DATA + 0x200 - pc["dst"]) if DATA <= pc["dst"] < DATA + 0x200 else 0
                        room = min(room, 0x200)
                        t["dstroom"] = room
                        t["dstmapped"] = DATA <= pc["dst"] < DATA + 0x200
                        if room:
                            t["got"] = area_bytes(o, pc["dst"], room) or []
                            t["before"] = area_bytes(prev, pc["dst"], room) or []
            if "pipe_ends" in o:
                prev = o
            res.append(t)
        out[sid] = res
    return order, by, out


def validate(scenarios, wd, tag, rep, jobs):
    events = vlib.run_scenarios(scenarios, wd, tag)
    order, by, proj = project(scenarios, events, rep)
    scn = {s["id"]: s for s in scenarios}
    chunks = [[t for sid in g for t in proj.get(sid, [])] for g in vlib.chunks(order, jobs) if g]
    verdicts = vlib.tlc_trace_parallel("Trace_Pipe", "Trace_Pipe.cfg", [c for c in chunks if c], wd, tag, jobs)
    for v in verdicts:
        sc, i, ev, comps = vlib.parse_tla_tuple(v)
        e = by[sc][i] if i < len(by[sc]) else {}
        rep.finding(f"{ev}/{'+'.join(sorted(comps))}", {"scenario": scn[sc], "failing_action": i,
                                                        "event": {k: v for k, v in e.items() if k != "obs"},
                                                        "pipes": {k: e.get("obs", {}).get(k) for k in ("pipe_ends", "pipe_bufs")}})
    return sum(len(v) for v in proj.values()), len(order)


def run(tier, seed):
    rep = vlib.Report(PROP, tier, seed, "model_checking")
    rng = random.Random(seed)
    wd = vlib.workdir("c14")
    try:
        q = tier == "quick"
        res = vlib.tlc_mc("MC_Pipe", "MC_Pipe.cfg", wd, workers=8, constants={"MaxOps": "8" if q else "12"}, timeout=3000)
        vlib.require_mc_ok(res, "MC_Pipe")
        mbt = vlib.tlc_mc("MC_Pipe", "MC_Pipe.cfg", wd, workers=1, coverage=False, constants={"MaxOps": "4", "DumpEdges": "TRUE"}, tag="mbt")
        vlib.require_mc_ok(mbt, "MC_Pipe (edges)")
        if len(mbt["edges"]) < 300:
            raise vlib.ToolError("edge dump unexpectedly small")
        sc1 = edge_scenarios(mbt["edges"])
        n1, s1 = validate(sc1, wd, "edges", rep, 8)
        sc2 = random_scenarios(rng, 200 if q else 12000, 14 if q else 24)
        n2, s2 = validate(sc2, wd, "rnd", rep, 8 if q else 14)
        shapes = set()
        for s in sc1 + sc2:
            for a in s["actions"]:
                if "pcall" in a:
                    pc = a["pcall"]
                    shapes.add((pc["kind"], pc.get("n"), isinstance(pc.get("fd"), dict), pc.get("src", 0) >= 0x8000, pc.get("dst", 0) in (RO, 0x9000)))
        rep.cov.update({
            "states": res["distinct"], "transitions": res["states"], "traces_validated_against_impl": s1 + s2,
            "events_validated": n1 + n2, "model_edges_replayed": len(sc1), "evaluations": n1 + n2, "distinct_nontrivial": len(shapes),
            "rule": "case = one guest syscall; distinct = (call kind, size, pipe-or-foreign descriptor, bad source, bad destination) shapes; "
                    "edges = all transitions of MC_Pipe at depth 4; random = seeded interleavings over <= 3 pipes",
            "samples": [sc1[len(sc1) // 2], sc2[0]],
        })
        rep.assumptions += ["TLC evaluates the specification correctly", "descriptor numbers and buffers are read through the cfg(ax_verif) accessor",
                            "a pipe() refused because of a descriptor clash (1 in 2^16 per end) is accepted if it changes nothing"]
        return rep.finish()
    finally:
        vlib.cleanup(wd)


def replay(path, seed):
    rep = vlib.Report(PROP, "quick", seed, "model_checking")
    case = json.load(open(path))["case"]
    wd = vlib.workdir("c14r")
    try:
        validate([case["scenario"]], wd, "replay", rep, 1)
        rep.cov.update({"states": 1, "transitions": 1, "traces_validated_against_impl": 1, "samples": [case["scenario"]["id"]]})
        return rep.finish()
    finally:
        vlib.cleanup(wd)
