"""C09 - memory permissions are enforced on every access path.
MC: MC_Memory (permission bits in the flat shadow memory; ReadLaw/WriteLaw demand the bit on every byte).
Bind: all 8 masks x every access path (API byte/typed read+write, guest load/store/RMW templates, implicit PUSH/CALL
stores, instruction fetch), constructor code area, ELF text/rodata/data segments, random mem_prot histories; validated
by Trace_Memory (denied access => error and memory unchanged; permitted access => no spurious refusal)."""
import json
import random

import c08
import elfgen
import memcommon as mc
import vlib

PROP = "C09"
BASE = 0x1000
API_PATHS = [("mem_read_bytes", None), ("mem_write_bytes", None)] + [("mem_read", w) for w in (8, 16, 32, 64, 128)] + \
            [("mem_write", w) for w in (8, 16, 32, 64, 128)]


def api_access(b, rng, path, w, addr):
    if path == "mem_read_bytes":
        b.api(op=path, addr=addr, len=rng.choice([1, 4, 9]))
    elif path == "mem_write_bytes":
        b.api(op=path, addr=addr, data=[rng.randrange(1, 256) for _ in range(rng.choice([1, 4, 9]))])
    elif path == "mem_read":
        b.api(op=path, w=w, addr=addr)
    else:
        b.api(op=path, w=w, addr=addr, val=[rng.randrange(256) for _ in range(16)] if w == 128 else rng.getrandbits(w))


def mask_path_scenarios(rng, templates):
    scs = []
    k = 0
    for mask in range(8):
        for path, w in API_PATHS:
            b = mc.Builder(f"mp{k}")
            k += 1
            b.api(op="mem_init_area", start=BASE, data=[rng.randrange(1, 256) for _ in range(48)])
            b.api(op="mem_prot", start=BASE, prot=mask)
            api_access(b, rng, path, w, BASE + 16)
            scs.append(b.scenario())
        for t in templates:
            # RMW templates run twice: with an operand that changes memory and with one that leaves it as it is
            for rax in ([0x0102030405060708, 0] if mc.TEMPLATES[t][1] == "rmw" else [None]):
                b = mc.Builder(f"mp{k}")
                k += 1
                b.api(op="mem_init_area", start=BASE, data=[rng.randrange(1, 256) for _ in range(48)])
                b.api(op="mem_prot", start=BASE, prot=mask)
                b.guest(t, BASE + 16 + (8 if mc.TEMPLATES[t][1] == "push" else 0), rax=rax)
                scs.append(b.scenario())
        # fetch from the area: needs X
        b = mc.Builder(f"mp{k}")
        k += 1
        b.api(op="mem_init_area", start=BASE, data=[0x90] * 32)
        b.api(op="mem_prot", start=BASE, prot=mask)
        b.fetch(BASE + 4, mustrun=True)
        scs.append(b.scenario())
    return scs


def code_area_scenarios(rng):
    """constructor-placed code is R+X: the guest cannot modify it, the API cannot write it, data cannot be executed"""
    scs = []
    k = 0
    for t in [x for x, v in mc.TEMPLATES.items() if v[1] in ("store", "sti", "rmw", "push")]:
        b = mc.Builder(f"code{k}")
        k += 1
        # target: the nop padding behind the instruction (inside the code area)
        b.code += bytes([0x90] * 40)
        tgt = mc.CODE + 8 + (8 if mc.TEMPLATES[t][1] == "push" else 0)
        b.api(op="reg_write", w=64, reg="RIP", val=mc.CODE + 40)
        b.guest(t, tgt)
        b.api(op="mem_write_bytes", addr=mc.CODE + 2, data=[1, 2, 3])
        b.api(op="mem_read_bytes", addr=mc.CODE + 2, len=3)
        scs.append(b.scenario())
    b = mc.Builder("code-datafetch")
    b.api(op="mem_init_area", start=BASE, data=[0x90] * 16)
    b.fetch(BASE + 2)
    b.api(op="init_stack", len=64)
    scs.append(b.scenario())
    return scs


def elf_scenarios(rng):
    text = bytes([0x90] * 24)
    elf = elfgen.build(0x400000, [
        {"type": elfgen.PT_LOAD, "flags": elfgen.PF_R | elfgen.PF_X, "vaddr": 0x400000, "data": text},
        {"type": elfgen.PT_LOAD, "flags": elfgen.PF_R, "vaddr": 0x500000, "data": bytes(range(1, 33))},
        {"type": elfgen.PT_LOAD, "flags": elfgen.PF_R | elfgen.PF_W, "vaddr": 0x600000, "data": bytes(range(65, 97)), "memsz": 64},
    ])
    # the same with segments that fill their pages exactly (file size = memory size = a page multiple: no zero-fill tail)
    elf_pg = elfgen.build(0x400000, [
        {"type": elfgen.PT_LOAD, "flags": elfgen.PF_R | elfgen.PF_X, "vaddr": 0x400000, "data": bytes([0x90] * 0x1000)},
        {"type": elfgen.PT_LOAD, "flags": elfgen.PF_R, "vaddr": 0x500000, "data": bytes((i % 251) + 1 for i in range(0x1000))},
        {"type": elfgen.PT_LOAD, "flags": elfgen.PF_R | elfgen.PF_W, "vaddr": 0x600000, "data": bytes((i % 13) + 65 for i in range(0x1000))},
    ])
    scs = []
    k = 0
    tmpls = ["store8", "store32", "store64", "store128", "sti16", "sti64", "add32", "not64", "xor16i", "push64", "call", "load64", "load128"]
    for tag, image, ts in (("", elf, tmpls), ("pg", elf_pg, ["store8", "store64", "sti16", "add32", "push64", "call", "load64"])):
        for seg, base in (("text", 0x400000), ("ro", 0x500000), ("data", 0x600000)):
            for t in ts:
                b = mc.Builder(f"elf{tag}-{seg}-{k}", code_at=0x10000)
                k += 1
                b.guest(t, base + 8 + (8 if mc.TEMPLATES[t][1] == "push" else 0))
                b.api(op="mem_write_bytes", addr=base + 3, data=[9, 9])
                b.api(op="mem_read_bytes", addr=base + 3, len=2)
                b.fetch(base + 1, mustrun=(seg == "text"))
                scs.append(b.scenario(maxbytes=5000, elf=image, expect_prot=((0x400000, 5), (0x500000, 1), (0x600000, 3))))
    return scs


def exec_revoke_scenarios(rng):
    """the execute permission is checked on EVERY fetch: after instructions have run from an area (the constructor's code
    area or a second area), mem_prot takes PROT_EXEC away (and gives it back) and the next fetch from the same area follows
    immediately"""
    scs = []
    k = 0
    for mask in range(8):
        for where in ("second", "code"):
            for warm in (1, 3):
                b = mc.Builder(f"xr{k}")
                k += 1
                if where == "second":
                    b.api(op="mem_init_area", start=BASE, data=[0x90] * 32)
                    b.api(op="mem_prot", start=BASE, prot=5)
                    at = BASE
                else:
                    b.code += bytes([0x90] * 32)
                    at = mc.CODE
                for j in range(warm):
                    b.fetch(at + j, mustrun=True)
                b.api(op="mem_prot", start=at, prot=mask)
                b.fetch(at + warm, mustrun=True)
                b.fetch(at + warm + 1, mustrun=True)
                b.api(op="mem_prot", start=at, prot=mask | 4)
                b.fetch(at + warm + 2, mustrun=True)
                b.api(op="mem_prot", start=at, prot=mask & 3)
                b.fetch(at + warm + 3, mustrun=True)
                scs.append(b.scenario())
    return scs


def abutting_scenarios(rng):
    """two areas that touch: A [BASE, BASE+32) and B [BASE+32, BASE+64) with independent masks.  Accesses that start in
    the last bytes of A and end in B (every write and read path, PUSH/CALL slots included) belong to neither area"""
    scs = []
    k = 0
    wr = [t for t, v in mc.TEMPLATES.items() if v[1] in ("store", "sti", "rmw", "push")]
    rd = [t for t, v in mc.TEMPLATES.items() if v[1] == "load"]
    for ma, mb in ((3, 1), (3, 5), (3, 0), (3, 3), (1, 3), (2, 1), (1, 0), (3, 4)):
        for path, w in API_PATHS:
            b = mc.Builder(f"ab{k}")
            k += 1
            b.api(op="mem_init_area", start=BASE, data=[rng.randrange(1, 256) for _ in range(32)])
            b.api(op="mem_init_area", start=BASE + 32, data=[rng.randrange(1, 256) for _ in range(32)])
            b.api(op="mem_prot", start=BASE, prot=ma)
            b.api(op="mem_prot", start=BASE + 32, prot=mb)
            n = (w // 8) if w else 4
            api_access(b, rng, path, w, BASE + 32 - (1 if n == 1 or path.endswith("bytes") else rng.randrange(1, n)))
            api_access(b, rng, path, w, BASE + 32)
            scs.append(b.scenario())
        for t in wr + rd:
            n = mc.TEMPLATES[t][2]
            if n == 1:
                continue
            b = mc.Builder(f"ab{k}")
            k += 1
            b.api(op="mem_init_area", start=BASE, data=[rng.randrange(1, 256) for _ in range(32)])
            b.api(op="mem_init_area", start=BASE + 32, data=[rng.randrange(1, 256) for _ in range(32)])
            b.api(op="mem_prot", start=BASE, prot=ma)
            b.api(op="mem_prot", start=BASE + 32, prot=mb)
            if mc.TEMPLATES[t][1] == "push":
                # RSP such that one of the candidate slots [rsp-8,rsp) / [rsp,rsp+8) straddles the border
                b.guest(t, BASE + 32 + rng.choice([4, -4, 2, -2, 6, -6]))
            else:
                b.guest(t, BASE + 32 - rng.randrange(1, n))
            scs.append(b.scenario())
    return scs


def hook_store_scenarios(rng):
    """a store made through the API from inside a hook (the built-in syscall handlers store that way) needs write permission
    like any other: all 8 masks, before- and after-hooks"""
    scs = []
    k = 0
    for mask in range(8):
        for when in ("before", "after"):
            b = mc.Builder(f"hk{k}")
            k += 1
            b.api(op="mem_init_area", start=BASE, data=[rng.randrange(1, 256) for _ in range(48)])
            b.api(op="mem_prot", start=BASE, prot=mask)
            data = [rng.randrange(1, 256) for _ in range(4)]
            b.api(op="hook", when=when, mnem="Nop", hid=1, ret="unhandled", stop=False, mark=False,
                  does=[{"op": "mem_write_bytes", "addr": BASE + 16, "data": data}])
            b.code += bytes([0x90])
            b.api(op="step", guest={"t": "hookstore", "kind": "hookstore", "n": 4, "addr": BASE + 16, "data": data})
            b.api(op="mem_read_bytes", addr=BASE + 16, len=4)
            scs.append(b.scenario())
    return scs


def prot_history_scenarios(rng, n, length):
    scs = []
    guest = list(mc.TEMPLATES)
    for k in range(n):
        b = mc.Builder(f"ph{k}")
        ars = []
        at = BASE
        for _ in range(rng.choice([1, 2, 3])):
            ln = rng.choice([24, 32, 40])
            b.api(op="mem_init_area", start=at, data=[0x90] * ln)
            ars.append((at, ln))
            at += ln + rng.choice([0, 8])
        for _ in range(length):
            s, ln = rng.choice(ars)
            u = rng.random()
            if u < 0.08:
                # resizing must keep the protection (the only area that can grow without colliding is the last one)
                b.api(op="mem_resize_section", start=s, new=rng.choice([ln, ln + 8, ln - 8, ln]))
            elif u < 0.35:
                b.api(op="mem_prot", start=s if rng.random() < 0.9 else s + 1, prot=rng.choice([0, 1, 2, 3, 4, 5, 6, 7, 7, 8]))
            elif u < 0.6:
                path, w = rng.choice(API_PATHS)
                api_access(b, rng, path, w, s + rng.choice([0, 4, ln - 16]))
            elif u < 0.9:
                t = rng.choice(guest)
                b.guest(t, s + 8 + (8 if mc.TEMPLATES[t][1] == "push" else 0))
            else:
                b.fetch(s + rng.randrange(0, 8))
                b.api(op="reg_write", w=64, reg="RIP", val=mc.CODE + len(b.code))
        scs.append(b.scenario())
    return scs


def run(tier, seed):
    rep = vlib.Report(PROP, tier, seed, "model_checking")
    rng = random.Random(seed)
    wd = vlib.workdir("c09")
    try:
        res = c08.mc_phase(wd, tier)
        edges = [e for e in c08.mbt_edges(wd) if any(h["op"] == "mem_prot" for h in e["hist"])
                 and e["hist"][-1]["op"] in ("mem_read_bytes", "mem_write_bytes", "mem_prot")]
        sc0 = c08.edge_scenarios(edges)
        n0, s0, _ = mc.validate(sc0, wd, "edges", rep, 8)
        q = tier == "quick"
        sc1 = mask_path_scenarios(rng, list(mc.TEMPLATES))
        sc2 = code_area_scenarios(rng)
        sc3 = elf_scenarios(rng)
        sc4 = prot_history_scenarios(rng, 150 if q else 15000, 10 if q else 16) + exec_revoke_scenarios(rng) + abutting_scenarios(rng) + hook_store_scenarios(rng)
        n1, s1, _ = mc.validate(sc1 + sc2 + sc4, wd, "perm", rep, 8 if q else 14)
        n3, s3, _ = mc.validate(sc3, wd, "elf", rep, 8)
        kinds = set()
        for s in sc1:
            acts = s["actions"]
            mask = [a["prot"] for a in acts if a["op"] == "mem_prot"][0]
            last = acts[-1] if acts[-1]["op"] != "reg_read" and acts[-1]["op"] != "reg_read_128" else acts[-2]
            kinds.add((mask, last["op"], last.get("w"), last.get("guest", {}).get("t")))
        rep.cov.update({
            "states": res["distinct"], "transitions": res["states"],
            "traces_validated_against_impl": s0 + s1 + s3, "events_validated": n0 + n1 + n3,
            "model_edges_replayed": len(edges), "evaluations": n0 + n1 + n3, "distinct_nontrivial": len(kinds),
            "mask_x_path_pairs": len(kinds),
            "rule": "case = one access under one permission mask; distinct = (mask, access path) pairs where a path is an API accessor "
                    "(byte/typed, read/write) or a guest template (load/store/imm-store/RMW/PUSH/CALL/fetch); plus constructor code area, "
                    "ELF text/rodata/data segments, seeded random mem_prot histories, execute permission revoked/re-granted between fetches "
                    "from the same area, and accesses straddling two abutting areas with different masks",
            "samples": [sc1[5], sc2[0], {"id": sc3[0]["id"], "actions": [a if a["op"] != "from_binary" else {"op": "from_binary", "data": "<generated ELF, 3 PT_LOAD: R+X, R, R+W>"} for a in sc3[0]["actions"]]}],
        })
        rep.assumptions += ["the property's permission model is the oracle (x86 pages cannot express write-only / execute-only)",
                            "guest templates address memory through [rbx] / rsp; other addressing forms are C05's concern",
                            "PUSH/CALL store location: either [rsp-8,rsp) (hardware) or [rsp,rsp+8) (ax convention, see C04) - both lie in the probed area"]
        return rep.finish()
    finally:
        vlib.cleanup(wd)


def replay(path, seed):
    rep = vlib.Report(PROP, "quick", seed, "model_checking")
    case = json.load(open(path))["case"]
    wd = vlib.workdir("c09r")
    try:
        mc.validate([case["scenario"]], wd, "replay", rep, 1)
        rep.cov.update({"states": 1, "transitions": 1, "traces_validated_against_impl": 1, "samples": [case["scenario"]["id"]]})
        return rep.finish()
    finally:
        vlib.cleanup(wd)
