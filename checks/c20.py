"""C20 - execution is a deterministic function of the explicit inputs.
MC: MC_TwoRun (two-run product of a small register machine: untainted registers agree in every reachable state;
'all registers agree' is violated without the taint condition - non-vacuity).
Bind: scenarios of the other drivers (random programs with hooks, brk / pipe syscalls, allocator histories, stack
initialisation, generated ELF images with aliased symbols) are each executed on three independently constructed
machines: two consecutively in one process and one in another process (different RandomState / ASLR).  Every
register (GPR, XMM, segment bases, flags) is written explicitly first.  Per action the observations (result, error
text, registers, flags, memory digest, count, structured trace, rendered trace and call stack, handler state) are
paired and TLC validates agreement; pipe descriptor numbers are normalised away (the only permitted difference)."""
import hashlib
import json
import os
import random
import subprocess

import c10
import c11
import c12
import c13
import c14
import c17
import elfgen
import execcommon as xc
import vlib

PROP = "C20"
OBS = ["regs", "fl", "xmm", "seg", "bytes", "exec", "trace", "sys"]
GPRS = xc.GPRS


def explicit_prelude(rng):
    """write every register the constructor randomises"""
    acts = []
    vals = [rng.getrandbits(64) for _ in GPRS]
    for r, v in zip(GPRS, vals):
        acts.append({"op": "reg_write", "w": 64, "reg": r, "val": v})
    for i in range(16):
        acts.append({"op": "reg_write_128", "reg": f"XMM{i}", "val": [rng.randrange(256) for _ in range(16)]})
    acts.append({"op": "write_fs", "val": 0})
    acts.append({"op": "write_gs", "val": 0})
    acts.append({"op": "set_rflags", "val": rng.choice([0, 0x40, 0x1, 0x8c5])})
    return acts


def with_prelude(sc, rng, skip_regs=()):
    acts = sc["actions"]
    pre = [a for a in explicit_prelude(rng) if a.get("reg") not in skip_regs]
    out = dict(sc)
    out["actions"] = [acts[0]] + pre + [shift_refs(a, len(pre)) for a in acts[1:]]
    out["obs"] = OBS
    out["judge_from"] = len(pre) + 1
    return {k: v for k, v in out.items() if not k.startswith("_")}


def shift_refs(a, d):
    """references to earlier results are action indexes: shift them by the length of the inserted prelude"""
    def f(v):
        if isinstance(v, dict):
            if "ref" in v and isinstance(v["ref"], int):
                v = dict(v)
                v["ref"] += d
                return v
            return {k: f(x) for k, x in v.items()}
        if isinstance(v, list):
            return [f(x) for x in v]
        return v
    a = f(a)
    if "loadof" in a:
        a["loadof"] += d
    return a


def elf_scenarios(rng, n):
    """programs with calls loaded from a generated ELF whose symbol table has several names per address"""
    scs = []
    for k in range(n):
        # call f; call g; jmp end; f: ret; g: call f; ret; end: nop
        code = bytes([0xe8, 0x07, 0, 0, 0,  0xe8, 0x03, 0, 0, 0,  0xeb, 0x07,  0xc3,  0xe8, 0xfa, 0xff, 0xff, 0xff, 0xc3, 0x90, 0x90])
        base = 0x401000
        names = ["start_alias", "alpha", "beta", "gamma", "delta"]
        rng.shuffle(names)
        syms = [("_start", base, 1), (names[0], base, 1), ("f", base + 12, 1), (names[1], base + 12, 1), (names[2], base + 12, 1),
                ("g", base + 13, 1), (names[3], base + 13, 1), (None, base + 19, 1)]
        rng.shuffle(syms)
        elf = elfgen.build(base, [{"type": elfgen.PT_LOAD, "flags": elfgen.PF_R | elfgen.PF_X, "vaddr": base, "data": code},
                                  {"type": elfgen.PT_LOAD, "flags": elfgen.PF_R | elfgen.PF_W, "vaddr": 0x402000, "data": bytes(16), "memsz": 64}],
                           symbols=syms)
        acts = [{"op": "from_binary", "data": list(elf)}] + explicit_prelude(rng)
        acts.append({"op": "init_stack_program_start", "len": 0x100, "argv": ["prog", "x" * rng.choice([1, 5])], "envp": ["A=b"]})
        for _ in range(10):
            acts.append({"op": "step"})
            acts.append({"op": rng.choice(["trace", "call_stack"])})
        for a in (base, base + 12, base + 13, base + 19, base + 1):
            acts.append({"op": "resolve_symbol", "addr": a})
        acts.append({"op": "step"})
        scs.append({"id": f"elf{k}", "obs": OBS, "actions": [dict(a, maxbytes=5000) for a in acts], "judge_from": len(explicit_prelude(random.Random(0))) + 1})
    return scs


def build_scenarios(rng, q):
    scs = []
    ex, _ = c11.random_scenarios(rng, 40 if q else 600, hooks_fn=c12.hooks_for, fault_p=0.05, syscall_p=0.05)
    for s in ex:
        s2 = xc.strip(s)
        s2["obs"] = OBS
        # exec scenarios already write all GPRs; add XMM / segment / flag writes after the existing prelude
        extra = [a for a in explicit_prelude(rng) if a["op"] != "reg_write" and a["op"] != "set_rflags"]
        s2["actions"] = [s2["actions"][0]] + extra + s2["actions"][1:]
        s2["judge_from"] = len(extra) + 1 + 16
        scs.append(s2)
    for k in range(30 if q else 400):
        scs.append(with_prelude(c13.scenario(rng, 1000 + k, 8), rng))
    for s in c14.random_scenarios(rng, 30 if q else 400, 10):
        scs.append(with_prelude(s, rng))
    for s in c10.alloc_scenarios(rng, 30 if q else 400, 8):
        scs.append(with_prelude(s, rng))
    for s in c17.random_scenarios(rng, 30 if q else 400):
        scs.append(with_prelude(s, rng))
    scs += elf_scenarios(rng, 12 if q else 100)
    for i, s in enumerate(scs):
        s["id"] = f"{i}:{s['id']}"
    return scs


def digest_obs(e, fdmap, mask=True):
    """observation record with pipe descriptor numbers replaced by their order of appearance (mask=False: raw values;
    the descriptor map is still advanced so that both variants number the descriptors alike)"""
    o = e.get("obs", {})
    res = dict(e.get("res", {}))
    out = {}

    def norm_fd(v):
        return fdmap.setdefault(v, len(fdmap)) if isinstance(v, int) else v
    ends = o.get("pipe_ends", [])
    for w, r in ends:
        norm_fd(r)
        norm_fd(w)
    fds = set(fdmap) if mask else set()
    # registers / results / memory that legitimately carry a descriptor number are masked (one key per register, so that a
    # register can be compared raw where the raw values agree - see pair_events)
    for k, v in o.get("regs", {}).items():
        out["reg:" + k] = "fd%d" % fdmap[v] if v in fds and v >= 1024 else str(v)
    out["fl"] = str(o.get("fl"))
    out["xmm"] = hashlib.sha1(json.dumps(o.get("xmm", {}), sort_keys=True).encode()).hexdigest()
    out["seg"] = f"{o.get('fs')},{o.get('gs')}"
    mem = []
    for a in o.get("areas", []):
        d = a.get("data")
        if d is not None and fds:
            # mask 8-byte little-endian occurrences of descriptor numbers (pipe() stores them in guest memory)
            b = bytes(d)
            for fd in fds:
                if fd >= 1024:
                    b = b.replace(fd.to_bytes(8, "little"), b"\xfd" * 8)
            d = list(b)
        mem.append(a["start"])
        out["mem:%d" % a["start"]] = json.dumps([a["len"], a["prot"], a["name"], hashlib.sha1(bytes(d)).hexdigest() if d is not None else "big:%d" % a["dlen"]])
    out["mem"] = json.dumps(mem)          # the list of area starts; contents per area under mem:<start>
    out["exec"] = json.dumps({k: o.get(k) for k in ("finished", "count", "max", "code_end", "stack_top", "rip", "running")})
    out["trace"] = json.dumps([o.get("trace"), o.get("call_stack")])
    out["sys"] = json.dumps([o.get("brk_start"), o.get("brk_len"), sorted([fdmap.get(w), fdmap.get(r)] for w, r in ends),
                             sorted([fdmap.get(r), b] for r, b in o.get("pipe_bufs", []))])
    v = res.get("v")
    if isinstance(v, int) and v in fds and v >= 1024:
        res["v"] = "fd%d" % fdmap[v]
    out["res"] = json.dumps(res, sort_keys=True)
    out["hooklog"] = json.dumps(e.get("hooklog", []), sort_keys=True)
    return out


def pair_events(order, by, suffix_a, suffix_b, pair, judge_from):
    out = []
    for sid in order:
        if not sid.endswith(suffix_a):
            continue
        base = sid[:-len(suffix_a)]
        other = base + suffix_b
        if other not in by:
            continue
        fa, fb = {}, {}
        ea, eb = by[sid], by[other]
        for i in range(max(len(ea), len(eb))):
            if i >= len(ea) or i >= len(eb):
                out.append({"sc": base, "i": i, "pair": pair, "a": {"present": str(i < len(ea))}, "b": {"present": str(i < len(eb))}})
                break
            da, db = digest_obs(ea[i], fa), digest_obs(eb[i], fb)
            # a value is masked as "descriptor k" when it EQUALS a descriptor number of its machine - which a buffer address or a
            # counter does once in 65 536 draws, in one machine only.  Where the RAW values of a field agree the field agrees.
            ra, rb = digest_obs(ea[i], dict(fa), mask=False), digest_obs(eb[i], dict(fb), mask=False)
            for kk in list(da):
                if kk in ra and kk in rb and ra[kk] == rb[kk]:
                    da[kk] = db[kk] = ra[kk]
            if i < judge_from.get(base, 0):
                # before every randomised register has been written only the call results are comparable
                da, db = {"res": da["res"]}, {"res": db["res"]}
            out.append({"sc": base, "i": i, "pair": pair, "a": da, "b": db})
    return out


def taint_phase(rep, n, length, seed, wd, jobs):
    """programs on two machines with only a SUBSET of the registers written (axv two); Trace_Taint carries the taint set"""
    out = os.path.join(wd, "two.ndjson")
    p = subprocess.run([vlib.AXV, "two", str(n), str(length), str(seed), os.path.join(vlib.VERIF, "spec", "forms.json"), out],
                       timeout=3600, stdout=subprocess.PIPE, stderr=subprocess.PIPE, text=True)
    if p.returncode != 0:
        raise vlib.ToolError(f"two-run harness failed rc={p.returncode}: {p.stderr[-300:]}")
    events = [json.loads(l) for l in open(out)]
    progs, by = [], {}
    for e in events:
        if e["ev"] == "reset":
            progs.append([])
        progs[-1].append({k: v for k, v in e.items() if k not in ("erra", "errb", "text", "program", "written", "start")})
        by.setdefault(e["c"], []).append(e)
    chunks = [[e for pr in g for e in pr] for g in vlib.chunks(progs, jobs) if g]
    verdicts = vlib.tlc_trace_parallel("Trace_Taint", "Trace_Taint.cfg", chunks, wd, "tt", jobs, timeout=3000)
    for v in verdicts:
        c, k, code, comps, locs = vlib.parse_tla_tuple(v)
        evs = by[c]
        st = next((e for e in evs if e["ev"] == "step" and e["n"] == k), None)
        rep.finding(f"partially-written/{code}/{'+'.join(sorted(comps))}",
                    {"two": True, "n": n, "length": length, "seed": seed, "program": c, "step": k, "differs_in": sorted(comps), "locations": sorted(locs),
                     "unwritten_registers": evs[0]["unwritten"], "explicitly_written": evs[0]["written"], "program_bytes": evs[0]["program"],
                     "start": evs[0]["start"], "instruction": st and st["text"], "summary": st and {x: st[x] for x in ("reads", "wfull", "wpart", "fw", "fu", "mr", "mw")},
                     "error_a": st and st["erra"][:600], "error_b": st and st["errb"][:600]})
    steps = [e for e in events if e["ev"] == "step"]
    return {"programs": len(progs), "steps": len(steps), "forms": len({e["code"] for e in steps}),
            "failing_steps_compared": sum(1 for e in steps if e["outa"] != "ok")}


def run(tier, seed):
    rep = vlib.Report(PROP, tier, seed, "model_checking")
    rng = random.Random(seed)
    wd = vlib.workdir("c20")
    try:
        q = tier == "quick"
        mc = vlib.tlc_mc("MC_TwoRun", "MC_TwoRun.cfg", wd, workers=8, constants={"MaxSteps": "3" if q else "4"}, timeout=3000)
        vlib.require_mc_ok(mc, "MC_TwoRun")
        nv = vlib.tlc_mc("MC_TwoRun", "MC_TwoRun.cfg", wd, workers=2, coverage=False, tag="nv", timeout=600)
        # non-vacuity: without the taint condition agreement fails
        cfgtxt = open(vlib.SPEC + "/MC_TwoRun.cfg").read().replace("INVARIANTS C20_Noninterference C20_FullyWritten", "INVARIANT NotVacuous")
        open(vlib.SPEC + "/.MC_TwoRun_nv.cfg", "w").write(cfgtxt)
        try:
            nv = vlib.tlc_mc("MC_TwoRun", ".MC_TwoRun_nv.cfg", wd, workers=2, coverage=False, tag="nv2", timeout=600)
        finally:
            import os
            os.remove(vlib.SPEC + "/.MC_TwoRun_nv.cfg")
        if nv["ok"]:
            raise vlib.ToolError("MC_TwoRun: 'all registers agree' holds without the taint condition (model vacuous?)")
        mt = vlib.tlc_mc("MC_Taint", "MC_Taint.cfg", wd, workers=8, constants={"MaxSteps": "3" if q else "4"}, timeout=3000, coverage=False)
        vlib.require_mc_ok(mc, "MC_Taint")
        # ... and for ANY instruction set that respects its summaries the rule is sound: TLAPS proof (assumptions Sem / Frame / Refused,
        # of which MC_Taint's machine is a model - checked by TLC as ASSUMEs of MC_Taint)
        nobl = vlib.tlaps("TaintSound", wd)
        rep.cov["taint_rule_proof"] = {"tool": "tlapm (TLAPS)", "module": "TaintSound.tla", "theorems": ["SameOutcome", "Noninterference"],
                                       "obligations": nobl, "discharged": nobl}
        tp = taint_phase(rep, 1500 if q else 20000, 12, seed + 300, wd, 8 if q else 14)
        # one-instruction programs: every form a few times with exactly its read set written
        for nn, ll, sd in ((2500, 1, 302),) if q else ((40000, 1, 302), (3000, 30, 301)):
            tp2 = taint_phase(rep, nn, ll, seed + sd, wd, 8 if q else 14)
            tp = {k: tp[k] + tp2[k] if k != "forms" else max(tp[k], tp2[k]) for k in tp}
        rep.cov["partially_written_registers"] = dict(tp, taint_model_states=mt["distinct"],
            rule="program = seeded sequence over spec/forms.json (12 instructions, or a single one) run on two machines with the same explicit "
                 "inputs; written registers: a random 10-80%, or exactly the registers the program reads; per step the instruction's data-flow summary (iced InstructionInfo) and where the machines differ; Trace_Taint "
                 "carries the taint set (TwoRun!TaintG, noninterference model-checked in MC_Taint) and demands agreement of outcome, error "
                 "text, RIP, count, log and of every untainted register / flag / memory")
        scs = build_scenarios(rng, q)
        # process 1: every scenario twice in a row (#a, #b); process 2: once (#c)
        f1 = []
        for s in scs:
            f1.append(dict(s, id=s["id"] + "#a"))
            f1.append(dict(s, id=s["id"] + "#b"))
        f2 = [dict(s, id=s["id"] + "#c") for s in scs]
        ev1 = vlib.run_scenarios(f1, wd, "p1")
        ev2 = vlib.run_scenarios(f2, wd, "p2")
        o1, by1 = vlib.split_by_scenario(ev1)
        o2, by2 = vlib.split_by_scenario(ev2)
        by = dict(by1)
        by.update(by2)
        jf = {s["id"]: s.get("judge_from", 0) for s in scs}
        pairs = pair_events(o1, by, "#a", "#b", "same-process", jf) + pair_events(o1, by, "#a", "#c", "cross-process", jf)
        verdicts = vlib.tlc_trace_parallel("Trace_TwoRun", "Trace_TwoRun.cfg", vlib.chunks(pairs, 8), wd, "t", 8, timeout=3000)
        scn = {s["id"]: s for s in scs}
        for v in verdicts:
            sc, i, pair, diff = vlib.parse_tla_tuple(v)
            s = scn[sc]
            a = s["actions"][i] if i < len(s["actions"]) else {}
            fam = sc.split(":", 1)[1].rstrip("0123456789sxe")
            rep.finding(f"{pair}/{fam}/{a.get('op')}/{'+'.join(sorted(diff))}",
                        {"scenario": {"id": sc, "actions": [x if x.get("op") != "from_binary" else {"op": "from_binary", "data": "<generated ELF>"} for x in s["actions"]]},
                         "action": i, "pair": pair, "differs_in": sorted(diff),
                         "a": [p for p in pairs if p["sc"] == sc and p["i"] == i and p["pair"] == pair][0]["a"],
                         "b": [p for p in pairs if p["sc"] == sc and p["i"] == i and p["pair"] == pair][0]["b"]})
        for e in ev1 + ev2:
            if e["ev"] == "worker":
                rep.finding("worker/" + e["res"]["k"], {"scenario": e["sc"]})
        rep.cov.update({
            "states": mc["distinct"], "transitions": mc["states"], "traces_validated_against_impl": 3 * len(scs),
            "paired_observations": len(pairs), "evaluations": len(pairs), "distinct_nontrivial": len(scs),
            "rule": "case = one action observed on two machines; pairs: (1st, 2nd machine of one process) and (1st machine, machine of another process); "
                    "distinct = distinct scenarios (random programs with hooks, brk, pipes, allocator histories, stack initialisation, generated ELF with "
                    "aliased symbols)",
            "samples": [{"id": scs[0]["id"], "actions": scs[0]["actions"][:25]}],
        })
        rep.assumptions += ["scenario phase: every register the constructor randomises (GPR, XMM) is written explicitly before use, so the taint set is empty",
                            "program phase: iced's InstructionInfo (registers / flags / memory read and written) is the data-flow oracle; taint at "
                            "64-bit register granularity and one bit for all of memory (conservative: fewer comparisons, never a wrong one)",
                            "pipe descriptor numbers are masked in registers, results, handler state and 8-byte memory cells",
                            "to_string() is not compared (it prints the hook table in HashMap order, which the property does not list)"]
        return rep.finish()
    finally:
        vlib.cleanup(wd)


def replay(path, seed):
    case = json.load(open(path))["case"]
    if case.get("two"):
        rep = vlib.Report(PROP, "quick", seed, "model_checking")
        wd = vlib.workdir("c20r")
        try:
            rep2 = vlib.Report(PROP, "quick", seed, "model_checking")
            taint_phase(rep2, case["n"], case["length"], case["seed"], wd, 1)
            rep.violations = [(k, r) for k, r in rep2.violations if r["program"] == case["program"] and r["step"] == case["step"]]
            rep.cov.update({"states": 1, "transitions": 1, "traces_validated_against_impl": 1, "samples": [case["instruction"]]})
            return rep.finish()
        finally:
            vlib.cleanup(wd)
    raise vlib.ToolError("re-run the check with the same VERIF_SEED")
