"""C01 - instruction results in registers and memory match real x86-64 hardware; the set of forms does not shrink."""
import random

import vlib
import progcommon as pc
import x86common as xc

PROP = "C01"
OWNS = lambda c: c in ("reg", "xmm", "mem", "rip", "out-spurious-error")

# whole programs (Trace_Prog): results of data instructions in the states a program really reaches
PROG_OWNS = lambda c, cls, m: cls == "data" and c in ("reg", "xmm", "mem", "out-spurious-error")


def run(tier, seed):
    rep = vlib.Report(PROP, tier, seed, "model_checking")
    wd = vlib.workdir("c01")
    try:
        mc = xc.mc_bv(wd, tier, deep=True)
        q = tier == "quick"
        res = xc.judge(rep, "data", 16 if q else 1000, seed, wd, "d", OWNS, jobs=8 if q else 14)
        rep.cov["samples"] = [{"family": "data", "forms": len({d[0] for d in res.distinct}), "example": sorted(res.distinct)[:3]}]
        t8 = xc.table8(rep, wd, True, False, workers=8 if q else 14)
        rep.cov["exhaustive_8bit"] = {"spec_rows_from_tlc": t8["rows"], "form_variants": t8["variants"], "cases": t8["cases"],
                                      "note": "every 8-bit operand pair x carry-in (all counts for shifts) of every 8-bit form/shape against tables printed by TLC from X86.tla"}
        xc.finish_cov(rep, res, mc, "Every non-control, non-stack form of spec/forms.json in register and memory shapes (9 addressing forms, FS/GS, "
                      "aliasing registers); components judged here: all registers, XMM, every memory byte, next RIP, 'form still executes'.")
        pc.phase(rep, tier, seed + 8100, wd, PROG_OWNS)
        return rep.finish()
    finally:
        vlib.cleanup(wd)


def replay(path, seed):
    import json as _j
    _c = _j.load(open(path))["case"]
    if _c.get("prog"):
        _wd = vlib.workdir(PROP.lower() + "r")
        try:
            return pc.replay(vlib.Report(PROP, "quick", seed, "model_checking"), _c, _wd, PROG_OWNS)
        finally:
            vlib.cleanup(_wd)
    return xc.std_replay(PROP, path, seed, OWNS)
