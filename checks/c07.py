"""C07 - register API behaves like the x86-64 register file.
MC: MC_RegFile (ground truth in Nat on every explored edge).  Bind: (a) every edge of the depth-2 model replayed on
the real Axecutor, (b) seeded random histories over all 68 views + ill-typed names; both validated by Trace_RegFile."""
import json
import random

import vlib
from vlib import le_bytes

PROP = "C07"
GPR64 = ["RAX", "RBX", "RCX", "RDX", "RSI", "RDI", "RSP", "RBP", "R8", "R9", "R10", "R11", "R12", "R13", "R14", "R15"]
ALLREGS = GPR64 + ["RIP"]
LOW8 = ["AL", "BL", "CL", "DL", "SIL", "DIL", "SPL", "BPL"] + [f"R{i}L" for i in range(8, 16)]
HIGH8 = ["AH", "BH", "CH", "DH"]
V16 = ["AX", "BX", "CX", "DX", "SI", "DI", "SP", "BP"] + [f"R{i}W" for i in range(8, 16)]
V32 = ["EAX", "EBX", "ECX", "EDX", "ESI", "EDI", "ESP", "EBP"] + [f"R{i}D" for i in range(8, 16)]
VIEWS = {8: LOW8 + HIGH8, 16: V16, 32: V32, 64: GPR64}
OTHER = ["RIP", "EIP", "XMM0", "XMM7", "XMM15"]
BASE = {}
for i, r in enumerate(GPR64):
    for lst in (LOW8, V16, V32, GPR64):
        BASE[lst[i]] = r
for i, h in enumerate(HIGH8):
    BASE[h] = GPR64[i]
NEW = {"op": "new", "code": [0x90], "start": 0x1000, "rip": 0x1000}


def biased_u64(rng):
    t = rng.random()
    if t < 0.15:
        return rng.choice([0, 1, 0xFF, 0x100, 0xFFFF, 0x10000, 0xFFFFFFFF, 0x100000000, (1 << 64) - 1, 1 << 63,
                           1 << 56, 0x0100000000000042, 0xFF000000000000FF, 0x7F, 0x80, 0x8000, 0x80000000])
    bs = [rng.choice([0, 0, 0, 1, 0x7F, 0x80, 0xFF, rng.randrange(256)]) for _ in range(8)]
    return sum(b << (8 * i) for i, b in enumerate(bs))


def random_scenarios(rng, n, length):
    scs = []
    for k in range(n):
        acts = [dict(NEW)]
        for _ in range(length):
            w = rng.choice([8, 16, 32, 64])
            t = rng.random()
            if t < 0.80:
                reg = rng.choice(VIEWS[w])
            elif t < 0.92:   # wrong width
                reg = rng.choice(VIEWS[rng.choice([x for x in (8, 16, 32, 64) if x != w])])
            else:
                reg = rng.choice(OTHER)
            u = rng.random()
            if u < 0.35:
                acts.append({"op": "reg_read", "w": w, "reg": reg})
            elif u < 0.55 and reg in BASE:
                # value derived from what the register currently holds (idempotent / too-wide re-write)
                acts.append({"op": "reg_read", "w": 64, "reg": BASE[reg]})
                mask = rng.choice([(1 << w) - 1, (1 << w) - 1, (1 << 64) - 1, 0xFF, 0xFFFF, 0xFFFFFFFF])
                acts.append({"op": "reg_write", "w": w, "reg": reg, "val": {"ref": len(acts) - 1, "and": mask}})
            else:
                v = biased_u64(rng)
                if rng.random() < 0.6:
                    v &= (1 << w) - 1
                acts.append({"op": "reg_write", "w": w, "reg": reg, "val": v})
        scs.append({"id": f"rnd{k}", "obs": ["regs"], "actions": acts})
    return scs


def conc_digit_seq(digits, rng):
    """model digits (Base 2) -> u64: 0 -> 0x00, 1 -> a non-zero byte"""
    v = 0
    for i, d in enumerate(digits):
        if d:
            v |= rng.choice([0x01, 0x80, 0xFF, 0xA5, rng.randrange(1, 256)]) << (8 * i)
    return v


def edge_scenarios(edges, rng):
    scs = []
    init = [0 if (i % 3) == 0 else 1 for i in range(1, 9)]      # MC_RegFile!Init
    for k, e in enumerate(edges):
        acts = [dict(NEW),
                {"op": "reg_write", "w": 64, "reg": "RAX", "val": conc_digit_seq(init, rng)},
                {"op": "reg_write", "w": 64, "reg": "RSI", "val": conc_digit_seq(init, rng)},
                {"op": "reg_write", "w": 64, "reg": "RIP", "val": conc_digit_seq(init, rng)}]
        for h in e["hist"]:
            a = {"op": h["op"], "w": h["w"], "reg": h["reg"]}
            if h["op"] == "reg_write":
                a["val"] = conc_digit_seq(h["val"], rng)
            acts.append(a)
        scs.append({"id": f"edge{k}", "obs": ["regs"], "actions": acts})
    return scs


def project(events):
    """harness events -> Trace_RegFile events (u64 -> 8 little-endian bytes; uniform fields)"""
    out = []
    for e in events:
        ev = e["ev"]
        if ev in ("begin", "end"):
            continue
        res = e.get("res", {})
        k = res.get("k", "harness")
        if k == "harness":
            raise vlib.ToolError(f"harness error in {e.get('sc')}#{e.get('i')}: {res}")
        regs = e.get("obs", {}).get("regs")
        t = {"ev": ev if ev in ("new", "reg_write", "reg_read") else "other", "sc": e["sc"], "i": e["i"],
             "w": e.get("w", 0), "reg": e.get("reg", ""), "k": k, "hasobs": regs is not None,
             "val": le_bytes(e["_val"]) if "_val" in e else [0] * 8,
             "rv": le_bytes(res["v"]) if (ev == "reg_read" and k == "ok") else [0] * 8,
             "regs": {r: le_bytes(regs[r]) for r in ALLREGS} if regs else {r: [0] * 8 for r in ALLREGS}}
        out.append(t)
    return out


def resolve_vals(scenarios, events):
    """attach the concrete u64 that a {"ref":..} argument resolved to (recomputed from the logged results)"""
    order, by = vlib.split_by_scenario(events)
    acts = {s["id"]: s["actions"] for s in scenarios}
    for sid in order:
        evs = by[sid]
        for e in evs:
            if e["ev"] != "reg_write":
                continue
            v = acts[sid][e["i"]].get("val")
            if isinstance(v, dict):
                base = evs[v["ref"]]["res"].get("v")
                if base is None:
                    e["_val"] = 0
                    e["_skip"] = True
                    continue
                v = (base & v.get("and", (1 << 64) - 1))
            elif isinstance(v, str):
                v = int(v, 0)
            e["_val"] = v


def validate(scenarios, wd, tag, rep, jobs):
    events = vlib.run_scenarios(scenarios, wd, tag)
    resolve_vals(scenarios, events)
    order, by = vlib.split_by_scenario(events)
    acts = {s["id"]: s for s in scenarios}
    proj = project(events)
    # chunk on scenario boundaries
    per = {}
    for t in proj:
        per.setdefault(t["sc"], []).append(t)
    groups = vlib.chunks(order, jobs)
    verdicts = vlib.tlc_trace_parallel("Trace_RegFile", "Trace_RegFile.cfg",
                                       [[t for sid in g for t in per.get(sid, [])] for g in groups if g], wd, tag, jobs)
    nviol = 0
    for v in verdicts:
        sc, i, ev, comps = vlib.parse_tla_tuple(v)
        e = by[sc][i]
        key = f"{ev}/w={e.get('w')}/reg={e.get('reg')}/{'+'.join(sorted(comps))}/res={e['res'].get('k')}"
        if rep.finding(key, {"scenario": acts[sc], "failing_action": i, "event": e}) == "violation":
            nviol += 1
    # crashes / hangs of the worker are never acceptable
    for sid in order:
        for e in by[sid]:
            if e["ev"] == "worker":
                rep.finding(f"worker/{e['res']['k']}", {"scenario": acts[sid]})
    return len(proj), len(order)


def run(tier, seed):
    rep = vlib.Report(PROP, tier, seed, "model_checking")
    rng = random.Random(seed)
    wd = vlib.workdir("c07")
    try:
        # 1. model checking: ground-truth laws on every edge
        depth = "3" if tier == "quick" else "5"
        mc = vlib.tlc_mc("MC_RegFile", "MC_RegFile.cfg", wd, workers=8, constants={"MaxDepth": depth})
        vlib.require_mc_ok(mc, "MC_RegFile")
        # 2. edge dump for model-based testing (depth 2 keeps the number of edges replayable)
        mbt = vlib.tlc_mc("MC_RegFile", "MC_RegFile.cfg", wd, workers=1, coverage=False,
                          constants={"MaxDepth": "2", "DumpEdges": "TRUE"}, tag="mbt")
        vlib.require_mc_ok(mbt, "MC_RegFile (edge dump)")
        edges = mbt["edges"]
        if len(edges) < 100:
            raise vlib.ToolError("edge dump unexpectedly small")
        sc_edges = edge_scenarios(edges, rng)
        n_ev1, n_sc1 = validate(sc_edges, wd, "edges", rep, 8)
        # 3. random histories over all views
        n, length = (400, 14) if tier == "quick" else (6000, 24)
        sc_rnd = random_scenarios(rng, n, length)
        n_ev2, n_sc2 = validate(sc_rnd, wd, "rnd", rep, 8 if tier == "quick" else 14)
        distinct = len({(a["op"], a.get("w"), a.get("reg")) for s in sc_edges + sc_rnd for a in s["actions"]})
        rep.cov.update({
            "states": mc["distinct"], "transitions": mc["states"],
            "traces_validated_against_impl": n_sc1 + n_sc2,
            "events_validated": n_ev1 + n_ev2, "model_edges_replayed": len(edges),
            "evaluations": n_ev1 + n_ev2, "distinct_nontrivial": distinct,
            "rule": "one case = one API call (op,width,register name); distinct = distinct (op,width,name) triples exercised; "
                    "edges = all transitions of MC_RegFile at depth 2 (Base 2 digits concretised to bytes); random = seeded "
                    "histories over all 68 views + wrong-width/RIP/EIP/XMM names with boundary-biased and current-value-derived values",
            "samples": [sc_edges[len(sc_edges) // 2], sc_rnd[0]],
            "mc_config": f"MC_RegFile Base=2 RegLen=8 regs={{RAX,RSI}} MaxDepth={depth}",
        })
        rep.assumptions += ["TLC 1.8 evaluates the specification correctly", "harness projection (u64 -> 8 LE bytes) is faithful",
                            "fatal_error! under cfg(ax_verif) returns Err like the wasm32 build"]
        return rep.finish()
    finally:
        vlib.cleanup(wd)


def replay(path, seed):
    rep = vlib.Report(PROP, "quick", seed, "model_checking")
    case = json.load(open(path))["case"]
    wd = vlib.workdir("c07r")
    try:
        validate([case["scenario"]], wd, "replay", rep, 1)
        rep.cov.update({"states": 1, "transitions": 1, "traces_validated_against_impl": 1, "samples": [case["scenario"]]})
        return rep.finish()
    finally:
        vlib.cleanup(wd)
