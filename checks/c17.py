"""C17 - stack initialisation yields the System V entry frame for any argv/envp.
MC: MC_StackInit enumerates configurations (argc, envc, string lengths, requested sizes, image) and checks that the
post-condition of StackInit.tla is satisfiable by a reference layout and rejects mutated frames.
Bind: every model configuration + seeded random ones (long lists relative to the stack size, empty and long strings,
images / small areas occupying the first candidate addresses) are run on the real Axecutor: init_stack_program_start,
then the guest POPs the whole frame (real `pop rax` instructions) and the pointed-to strings are read; TLC validates
the gathered outcome against StackInit!Post."""
import json
import random

import vlib
from vlib import model_int

PROP = "C17"


def scenario(sid, argv, envp, L, image_at, extra):
    n = len(argv) + len(envp) + 3
    code = [0x58] * n + [0x90] * 8
    acts = [{"op": "new", "code": code, "start": image_at, "rip": image_at}]
    for (s, ln) in extra:
        acts.append({"op": "mem_init_zero", "start": s, "len": ln})
    acts.append({"op": "nop", "mark": "before"})
    acts.append({"op": "init_stack_program_start", "len": L, "argv": argv, "envp": envp})
    pops = []
    for _ in range(n):
        acts.append({"op": "step"})
        acts.append({"op": "reg_read", "w": 64, "reg": "RAX"})
        pops.append(len(acts) - 1)
    strs = argv + envp
    idx = [pops[1 + i] for i in range(len(argv))] + [pops[2 + len(argv) + i] for i in range(len(envp))]
    for i, s in enumerate(strs):
        acts.append({"op": "mem_read_bytes", "addr": {"ref": idx[i]}, "len": len(s.encode()) + 1})
    return {"id": sid, "obs": ["regs", "areas"], "actions": acts, "_argv": argv, "_envp": envp, "_L": L, "_pops": pops}


def mk_strings(rng, lens):
    out = []
    for k, ln in enumerate(lens):
        # mostly ASCII; one string in five mixes in 2-, 3- and 4-byte UTF-8 characters (the copy is byte for byte)
        alpha = "abcXYZ/=_0" if rng.random() < 0.8 else "ab0=\u00e9\u00ef\u65e5\u672c\U0001f600"
        out.append("".join(rng.choice(alpha) for _ in range(ln)))
    return out


def model_scenarios(edges, rng):
    scs = []
    for k, e in enumerate(edges):
        image_at = {0: 0x100000, 16: 0x1008, 4096: 0x1000}[e["img"]]
        scs.append(scenario(f"m{k}", mk_strings(rng, e["argv"]), mk_strings(rng, e["envp"]), e["L"], image_at, []))
    return scs


def random_scenarios(rng, n):
    scs = []
    for k in range(n):
        argc = rng.choice([0, 0, 1, 2, 3, 5, 8, 17, 40])
        envc = rng.choice([0, 0, 1, 2, 3, 6, 30])
        lens = lambda c: [rng.choice([0, 1, 2, 3, 7, 8, 14, 15, 16, 40, 200]) for _ in range(c)]
        L = rng.choice([0, 8, 16, 24, 64, 100, 0x100, 0x1000, 0x2000])
        image_at = rng.choice([0x100000, 0x400000, 0x1000, 0x1008, 0x1010, 0x2000])
        extra = []
        for _ in range(rng.choice([0, 0, 1, 2])):
            extra.append((rng.choice([0x1000, 0x1003, 0x1010, 0x1020, 0x1100, 0x3000]) + 0x40 * len(extra) * 0, rng.choice([1, 3, 8, 16])))
        # avoid overlapping explicit areas (those would simply be refused and change nothing of interest)
        extra = [(s, ln) for i, (s, ln) in enumerate(extra) if all(not (s < s2 + l2 and s2 < s + ln) for (s2, l2) in extra[:i])
                 and not (s < image_at + 64 and image_at < s + ln)]
        scs.append(scenario(f"r{k}", mk_strings(rng, lens(argc)), mk_strings(rng, lens(envc)), L, image_at, extra))
    return scs


def mi(v):
    m = model_int(v)
    return m if m is not None else -2


def project(scenarios, events, rep):
    order, by = vlib.split_by_scenario(events)
    scn = {s["id"]: s for s in scenarios}
    out = []
    for sid in order:
        sc = scn[sid]
        evs = by[sid]
        if any(e["ev"] == "worker" for e in evs):
            rep.finding("worker/" + [e for e in evs if e["ev"] == "worker"][0]["res"]["k"], {"scenario": strip(sc)})
            continue
        init = [e for e in evs if e["ev"] == "init_stack_program_start"][0]
        before = [e for e in evs if e["ev"] == "nop"][0]
        k = init["res"].get("k")
        argv, envp = sc["_argv"], sc["_envp"]
        n = len(argv) + len(envp) + 3
        t = {"sc": sid, "k": k, "argv": [list(s.encode()) for s in argv], "envp": [list(s.encode()) for s in envp], "L": sc["_L"],
             "o": {"rsp": 0, "popped": [], "strs": [], "frame": [0, 0], "stack": [0, 0], "areas": [], "before": []}}
        if k == "ok":
            obs = init["obs"]
            rsp = obs["regs"]["RSP"]
            popped = []
            for i in sc["_pops"]:
                r = evs[i]["res"]
                popped.append(mi(r["v"]) if r.get("k") == "ok" else -1)
            steps_ok = all(e["res"].get("k") == "ok" for e in evs if e["ev"] == "step")
            strs = [e["res"].get("v", []) if e["res"].get("k") == "ok" else [] for e in evs if e["ev"] == "mem_read_bytes"]
            stack = [a for a in obs["areas"] if a["name"] == "Stack"]
            t["o"] = {"rsp": mi(rsp), "popped": popped if steps_ok else [], "strs": strs,
                      "frame": [mi(rsp), 8 * n + 8],
                      "stack": [mi(stack[-1]["start"]), mi(stack[-1]["len"])] if stack else [0, 0],
                      "areas": [[mi(a["start"]), mi(a["len"]), a["prot"]] for a in obs["areas"]],
                      "before": [[mi(a["start"]), mi(a["len"]), a["prot"]] for a in before["obs"]["areas"]]}
        out.append(t)
    return out


def strip(sc):
    return {k: v for k, v in sc.items() if not k.startswith("_")}


def validate(scenarios, wd, tag, rep, jobs):
    events = vlib.run_scenarios([strip(s) for s in scenarios], wd, tag)
    proj = project(scenarios, events, rep)
    scn = {s["id"]: s for s in scenarios}
    verdicts = vlib.tlc_trace_parallel("Trace_StackInit", "Trace_StackInit.cfg", [c for c in vlib.chunks(proj, jobs) if c], wd, tag, jobs)
    for v in verdicts:
        sc, i, ev, comps = vlib.parse_tla_tuple(v)
        s = scn[sc]
        n = len(s["_argv"]) + len(s["_envp"]) + 3
        shape = "long-list" if 8 * n + 16 > s["_L"] else "fits"
        t = [x for x in proj if x["sc"] == sc][0]
        rep.finding(f"{'+'.join(sorted(comps))}/{shape}", {"scenario": strip(s), "argv": s["_argv"], "envp": s["_envp"], "len": s["_L"], "observed": t["o"]})
    return len(proj)


def run(tier, seed):
    rep = vlib.Report(PROP, tier, seed, "model_checking")
    rng = random.Random(seed)
    wd = vlib.workdir("c17")
    try:
        q = tier == "quick"
        mc = vlib.tlc_mc("MC_StackInit", "MC_StackInit.cfg", wd, workers=8, constants={"MaxN": "2" if q else "3"}, timeout=3000, coverage=False)
        vlib.require_mc_ok(mc, "MC_StackInit")
        mbt = vlib.tlc_mc("MC_StackInit", "MC_StackInit.cfg", wd, workers=1, coverage=False, constants={"MaxN": "2", "DumpEdges": "TRUE"}, tag="mbt")
        vlib.require_mc_ok(mbt, "MC_StackInit (configurations)")
        edges = mbt["edges"]
        if len(edges) < 500:
            raise vlib.ToolError("configuration dump unexpectedly small")
        sc1 = model_scenarios(edges, rng)
        n1 = validate(sc1, wd, "mdl", rep, 8)
        sc2 = random_scenarios(rng, 300 if q else 25000)
        n2 = validate(sc2, wd, "rnd", rep, 8 if q else 14)
        shapes = {(len(s["_argv"]), len(s["_envp"]), s["_L"], s["actions"][0]["start"], tuple(sorted(len(x) for x in s["_argv"] + s["_envp"]))) for s in sc1 + sc2}
        rep.cov.update({
            "states": mc["distinct"], "transitions": mc["states"], "traces_validated_against_impl": n1 + n2,
            "model_configurations_replayed": len(sc1), "evaluations": n1 + n2, "distinct_nontrivial": len(shapes),
            "rule": "case = one init_stack_program_start + guest pops of the whole frame + string reads; distinct = (argc, envc, requested size, image "
                    "address, multiset of string lengths)",
            "samples": [strip(sc1[len(sc1) // 2]), strip(sc2[0])],
        })
        rep.assumptions += ["TLC evaluates the specification correctly", "the guest observes the frame through ax's own POP (see C04 for its slot convention); "
                            "the frame range judged for mapping/disjointness covers both conventions ([rsp, rsp+8n+8))",
                            "alignment padding allowance between requested size and space below RSP: 48 bytes"]
        return rep.finish()
    finally:
        vlib.cleanup(wd)


def replay(path, seed):
    rep = vlib.Report(PROP, "quick", seed, "model_checking")
    case = json.load(open(path))["case"]
    wd = vlib.workdir("c17r")
    try:
        sc = scenario(case["scenario"]["id"], case["argv"], case["envp"], case["len"], case["scenario"]["actions"][0]["start"],
                      [(a["start"], a["len"]) for a in case["scenario"]["actions"] if a["op"] == "mem_init_zero"])
        validate([sc], wd, "replay", rep, 1)
        rep.cov.update({"states": 1, "transitions": 1, "traces_validated_against_impl": 1, "samples": [case["scenario"]["id"]]})
        return rep.finish()
    finally:
        vlib.cleanup(wd)
