"""C12 - hooks bracket the instruction, short-circuit, stop and fail cleanly.
MC: MC_Exec with HookMode = "menu": every sequence of up to MaxHooks hooks (before/after x own/foreign mnemonic x
unhandled/handled/error x stop) around a program; EdgeLaws check legal chains, order and foreign hooks.
Bind: every hook configuration of the model replayed with instrumented native hooks (each logs hook id, phase, RIP,
count; writes a mark register; half of them try to register hooks / syscall handlers from inside) + seeded random
configurations over random programs with follow-up registrations and steps; validated by Trace_Exec."""
import json
import random

import c11
import execcommon as xc
import vlib

PROP = "C12"


def hooks_for(rng, p):
    mnems = sorted({e["mnem"] for e in p.table.values() if e["mnem"]})
    foreign = [m for m in xc.ALL_MNEMONICS if m not in mnems]          # every supported mnemonic the program does not contain
    hs = []
    for hid in range(1, rng.choice([1, 2, 3, 4, 5, 6]) + 1):
        m = rng.choice(mnems) if (rng.random() < 0.65 or not foreign) else rng.choice(foreign)
        if rng.random() < 0.4 and hs:
            m = hs[-1]["mnem"]                      # several hooks on one mnemonic
        ret = rng.choice(["unhandled", "unhandled", "unhandled", "handled", "error"])
        hs.append(xc.hook_action(hid, rng.choice(["before", "after"]), m, ret, stop=rng.random() < 0.15,
                                 try_register=rng.random() < 0.4))
    return hs


def followup_scenarios(rng, n):
    """a run that ends (normally, by stop, or by a failing hook) followed by registrations, which must be accepted
    whenever no hook is executing, and by further steps"""
    scs = []
    for k in range(n):
        p = xc.random_program(rng, rng.choice([2, 3, 4, 6]), allow=("plain", "plain", "jmp", "jcc", "call", "ret"), syscall_p=0.15, backward=False)
        regs = [rng.choice([0, 1, 2, rng.getrandbits(64)]) for _ in xc.GPRS]
        pre = c11.pre_actions(rng, None, regs, flags=rng.choice([0, 0x40, 0x1]))
        hs = hooks_for(rng, p)
        body = []
        for i in range(rng.choice([3, 6, 10])):
            body.append({"op": "step"})
            if rng.random() < 0.3:
                hid = 20 + len(body)
                body.append(xc.hook_action(hid, rng.choice(["before", "after"]), rng.choice(["Nop", "Mov", "Ret", "Syscall", "Jmp", "Int", "Int3", "Int1"]),
                                           rng.choice(["unhandled", "handled", "error"]), stop=rng.random() < 0.1))
        scs.append(xc.scenario(f"f{k}", p, pre + hs, body))
    return scs


def fault_retry_scenarios(rng, n):
    """the hooks of a mnemonic survive an instruction of that mnemonic that FAILS: the run continues with further
    instructions of the same mnemonic (A), or the machine is repaired and the same instruction is executed again (B)"""
    scs = []
    for k in range(n):
        regs = [rng.choice([0, 1, 2, rng.getrandbits(64)]) for _ in xc.GPRS]
        pre = c11.pre_actions(rng, None, regs, flags=rng.choice([0, 0x40, 0x1]))
        nh = rng.choice([1, 2, 3])
        if k % 2 == 0:
            insns = [{"t": rng.choice(["nop", "mov_rcx"])} if rng.random() < 0.5 else {"t": "mov_rax", "imm": 3}, {"t": "fault"}]
            insns += [{"t": rng.choice(["mov_rax", "mov_rcx", "nop", "fault", "inc_rcx"]), "imm": 1} for _ in range(rng.choice([2, 3, 5]))]
            p = xc.Program(insns)
            hs = [xc.hook_action(h + 1, rng.choice(["before", "after", "before"]), "Mov", "unhandled", try_register=rng.random() < 0.3) for h in range(nh)]
            body = [{"op": "step"} for _ in range(len(insns) + 1)]
            scs.append(xc.scenario(f"fr{k}", p, pre + hs, body))
        else:
            kind = rng.choice(["call32", "push_rax"])
            insns = [{"t": "nop"}, {"t": kind, "tgt": 3} if kind == "call32" else {"t": kind}, {"t": "nop"}, {"t": "nop"}, {"t": "nop"}]
            p = xc.Program(insns)
            mn = xc.T[kind][2]
            hs = [xc.hook_action(h + 1, rng.choice(["before", "after", "before"]), mn, "unhandled", try_register=rng.random() < 0.3) for h in range(nh)]
            # the stack is the last pre-action's area: find init_stack's index to refer to the address it returned
            acts_before = 1 + len(pre) + len(hs)          # "new" + pre + hooks
            istack = 1 + [i for i, a in enumerate(pre) if a["op"] == "init_stack"][0]
            body = [{"op": "step"},
                    {"op": "reg_write", "w": 64, "reg": "RSP", "val": 0x70000000},          # stack switched to unmapped memory
                    {"op": "step"},                                                           # the stack instruction fails
                    {"op": "reg_write", "w": 64, "reg": "RSP", "val": {"ref": istack, "plus": 0x100}},   # repaired
                    {"op": "reg_write", "w": 64, "reg": "RIP", "val": p.addr[1]},
                    {"op": "step"}, {"op": "step"}]
            scs.append(xc.scenario(f"fr{k}", p, pre + hs, body))
    return scs


def run(tier, seed):
    rep = vlib.Report(PROP, tier, seed, "model_checking")
    rng = random.Random(seed)
    wd = vlib.workdir("c12")
    try:
        res = c11.mc_phase(wd, tier, hookmode=True)
        sc1 = c11.model_scenarios(c11.mbt_edges(wd, hookmode=True), rng)
        n1, s1 = xc.validate(sc1, wd, "mdl", rep, 8, owner=PROP)
        q = tier == "quick"
        sc2, refs = c11.random_scenarios(rng, 100 if q else 2000, hooks_fn=hooks_for, fault_p=0.04, syscall_p=0.08)
        n2, s2 = xc.validate(sc2, wd, "rnd", rep, 8 if q else 14, refs=refs, owner=PROP)
        sc3 = followup_scenarios(rng, 150 if q else 2500)
        sc3 += fault_retry_scenarios(rng, 80 if q else 1200)
        n3, s3 = xc.validate(sc3, wd, "fol", rep, 8 if q else 14, owner=PROP)
        cfgs = {json.dumps([(a["when"], a["mnem"], a["ret"], a["stop"]) for a in s["actions"] if a["op"] == "hook"]) for s in sc1 + sc2 + sc3}
        rep.cov.update({
            "states": res["distinct"], "transitions": res["states"], "traces_validated_against_impl": s1 + s2 + s3,
            "events_validated": n1 + n2 + n3, "model_hook_configurations_replayed": len(sc1), "evaluations": n1 + n2 + n3,
            "distinct_nontrivial": len(cfgs),
            "rule": "case = one step with hooks; distinct = distinct hook configurations (sequence of (phase, mnemonic, outcome, stop)); "
                    "model configurations: every sequence of <= 2 hooks of the menu around a 2-instruction program; random: 1-6 hooks on "
                    "own/foreign mnemonics over random programs, with registrations between steps and from inside hooks; hooked instructions that "
                    "fail, followed by further instructions of the mnemonic or by a repair and a second execution",
            "samples": [xc.strip(sc1[len(sc1) // 2]), xc.strip(sc3[0])],
        })
        rep.assumptions += ["TLC evaluates the specification correctly", "native (Rust) hooks only; the JS hook path exists only on wasm32",
                            "order among the hooks of one phase is not prescribed; after a before-hook stopped execution it is left open whether "
                            "the current instruction and after hooks still run"]
        return rep.finish()
    finally:
        vlib.cleanup(wd)


def replay(path, seed):
    return c11.replay(path, seed, PROP)
