"""Shared machinery of C08 / C09 / C10: scenario builders, projection of harness events to Trace_Memory events,
validation.  All random choices come from the rng passed in (seeded from VERIF_SEED)."""
import vlib
from vlib import le_bytes, model_int

CODE = 0x100000
M64 = 1 << 64
PR, PW, PX = 1, 2, 4

# guest access templates: name -> (bytes, kind, n, needs).  All address memory through [rbx]; stores take the value
# from rax / xmm0 or an immediate; push/call use rsp.
TEMPLATES = {
    "load8":   (bytes([0x8a, 0x03]), "load", 1), "load16": (bytes([0x66, 0x8b, 0x03]), "load", 2),
    "load32":  (bytes([0x8b, 0x03]), "load", 4), "load64": (bytes([0x48, 0x8b, 0x03]), "load", 8),
    "load128": (bytes([0x0f, 0x10, 0x03]), "load", 16),
    "movzx8":  (bytes([0x0f, 0xb6, 0x03]), "load", 1), "cmp32": (bytes([0x39, 0x03]), "load", 4),
    "test8":   (bytes([0x84, 0x03]), "load", 1), "add_r_m64": (bytes([0x48, 0x03, 0x03]), "load", 8),
    # compare / test with an immediate: reads its memory operand and writes NOTHING back
    "cmp64i":  (bytes([0x48, 0x83, 0x3b, 0x05]), "load", 8), "cmp32i": (bytes([0x83, 0x3b, 0x05]), "load", 4),
    "cmp16i":  (bytes([0x66, 0x81, 0x3b, 0x34, 0x12]), "load", 2), "cmp8i": (bytes([0x80, 0x3b, 0x7f]), "load", 1),
    "test64i": (bytes([0x48, 0xf7, 0x03, 0xff, 0xff, 0xff, 0xff]), "load", 8), "cmp64i32": (bytes([0x48, 0x81, 0x3b, 0x78, 0x56, 0x34, 0x12]), "load", 8),
    "store8":  (bytes([0x88, 0x03]), "store", 1), "store16": (bytes([0x66, 0x89, 0x03]), "store", 2),
    "store32": (bytes([0x89, 0x03]), "store", 4), "store64": (bytes([0x48, 0x89, 0x03]), "store", 8),
    "store128": (bytes([0x0f, 0x11, 0x03]), "store", 16),
    "sti8":    (bytes([0xc6, 0x03, 0xa7]), "sti", 1), "sti16": (bytes([0x66, 0xc7, 0x03, 0x34, 0x92]), "sti", 2),
    "sti32":   (bytes([0xc7, 0x03, 0x78, 0x56, 0x34, 0x92]), "sti", 4),
    "sti64":   (bytes([0x48, 0xc7, 0x03, 0x78, 0x56, 0x34, 0x92]), "sti", 8),
    "add8":    (bytes([0x00, 0x03]), "rmw", 1), "add16": (bytes([0x66, 0x01, 0x03]), "rmw", 2),
    "add32":   (bytes([0x01, 0x03]), "rmw", 4), "add64": (bytes([0x48, 0x01, 0x03]), "rmw", 8),
    "neg8":    (bytes([0xf6, 0x1b]), "rmw", 1), "not64": (bytes([0x48, 0xf7, 0x13]), "rmw", 8),
    "inc32":   (bytes([0xff, 0x03]), "rmw", 4), "xor8i": (bytes([0x80, 0x33, 0x5a]), "rmw", 1),
    "xor16i":  (bytes([0x66, 0x81, 0x33, 0x34, 0x12]), "rmw", 2), "sub32i8": (bytes([0x83, 0x2b, 0x01]), "rmw", 4),
    "and64i":  (bytes([0x48, 0x81, 0x23, 0x0f, 0xf0, 0x0f, 0x70]), "rmw", 8), "shl32": (bytes([0xc1, 0x23, 0x03]), "rmw", 4),
    "dec16":   (bytes([0x66, 0xff, 0x0b]), "rmw", 2), "adc8i": (bytes([0x80, 0x13, 0x11]), "rmw", 1),
    "push64":  (bytes([0x50]), "push", 8), "pushi8": (bytes([0x6a, 0x7f]), "push", 8),
    "call":    (bytes([0xe8, 0, 0, 0, 0]), "push", 8),
}
STI_DATA = {"sti8": [0xa7], "sti16": [0x34, 0x92], "sti32": [0x78, 0x56, 0x34, 0x92],
            "sti64": [0x78, 0x56, 0x34, 0x92, 0xff, 0xff, 0xff, 0xff]}


class Builder:
    """Builds one scenario; guest instructions are collected and laid out in the code area at the end."""

    def __init__(self, sid, code_at=CODE):
        self.sid = sid
        self.code_at = code_at
        self.code = bytearray()
        self.acts = []      # without the leading "new"
        self.pre = []       # actions placed right after "new" (before everything else)

    def api(self, **a):
        self.acts.append(a)
        return len(self.acts)        # index in the final action list ("new" is action 0)

    def guest(self, tmpl, addr, val=None, rax=None):
        b, kind, n = TEMPLATES[tmpl]
        ann = {"t": tmpl, "kind": kind, "n": n, "addr": addr}
        if kind in ("load", "store", "rmw", "sti"):
            self.api(op="reg_write", w=64, reg="RBX", val=addr)
        if kind == "store":
            data = val if val is not None else [(0x11 * (i + 3)) & 0xFF for i in range(n)]
            ann["data"] = data
            if n == 16:
                self.api(op="reg_write_128", reg="XMM0", val=data)
            else:
                self.api(op="reg_write", w=64, reg="RAX", val=vlib.from_le(data + [0xEE] * (8 - n)))
        elif kind == "sti":
            ann["data"] = STI_DATA[tmpl]
            ann["kind"] = "store"
        elif kind == "rmw":
            # operand values that change memory and ones that leave it as it is (x+0): the store must happen either way
            self.rmw_n = getattr(self, "rmw_n", 0) + 1
            if rax is None:
                rax = 0x0102030405060708 if (self.rmw_n + len(self.sid)) % 3 else 0
            self.api(op="reg_write", w=64, reg="RAX", val=rax)
        elif kind == "push":
            # addr = the RSP value; both [rsp-8, rsp) (hardware) and [rsp, rsp+8) (ax's convention) are covered
            self.api(op="reg_write", w=64, reg="RSP", val=addr)
            ann["addr"] = (addr - 8) % M64
            ann["n"] = 16
        ann["rip"] = self.code_at + len(self.code)
        self.code += b
        idx = self.api(op="step", guest=ann)
        if kind == "load" and tmpl.startswith("load") :
            if n == 16:
                self.api(op="reg_read_128", reg="XMM0", loadof=idx)
            else:
                self.api(op="reg_read", w=64, reg="RAX", loadof=idx)
        return idx

    def fetch(self, addr, mustrun=False):
        """step with RIP = addr (an address the scenario chose); only the fetch permission is judged"""
        self.api(op="reg_write", w=64, reg="RIP", val=addr)
        return self.api(op="step", guest={"t": "fetch", "kind": "fetch", "n": 1, "addr": addr, "mustrun": mustrun})

    def scenario(self, obs=("bytes",), maxbytes=700, elf=None, expect_prot=()):
        code = bytes(self.code) + bytes([0x90] * 4)
        if elf is None:
            acts = [{"op": "new", "code": list(code), "start": self.code_at, "rip": self.code_at, "maxbytes": maxbytes}]
        else:
            # machine from an ELF image; the guest instructions live in a separate R+X area created through the API.
            # NOTE: the three prelude actions shift the indexes returned by api()/guest() by 3 ("loadof" is fixed up below)
            acts = [{"op": "from_binary", "data": list(elf), "maxbytes": maxbytes, "expect_prot": [list(x) for x in expect_prot]},
                    {"op": "mem_init_area", "start": self.code_at, "data": list(code), "maxbytes": maxbytes},
                    {"op": "mem_prot", "start": self.code_at, "prot": 5, "maxbytes": maxbytes},
                    {"op": "reg_write", "w": 64, "reg": "RIP", "val": self.code_at, "maxbytes": maxbytes}]
            for a in self.acts:
                if "loadof" in a:
                    a["loadof"] += 3
        for a in self.acts:
            a = dict(a)
            a["maxbytes"] = maxbytes
            acts.append(a)
        return {"id": self.sid, "obs": list(obs), "actions": acts}


def mi(v, what):
    m = model_int(v)
    if m is None:
        raise vlib.ToolError(f"{what}: value {v:#x} outside the specification's address windows (generator bug)")
    return m


def proj_areas(obs):
    ars = obs.get("areas")
    if ars is None:
        return None
    out = []
    for a in ars:
        if "data" not in a:
            return None
        # the abstract contents of an area are the bytes an access can reach: the first `len` bytes of the backing buffer
        # (an implementation may keep a larger buffer after a shrink; a shorter one shows as a length mismatch in the spec)
        ln = a["len"]
        data = a["data"][:ln] if ln < (1 << 29) else a["data"]
        out.append({"start": mi(a["start"], "area start"), "len": mi(ln, "area len"), "prot": a["prot"], "data": data})
    return out


def resolve(acts, evs, v):
    if isinstance(v, dict):
        base = evs[v["ref"]]["res"].get("v")
        if base is None:
            return None
        return ((base & v.get("and", M64 - 1)) + v.get("plus", 0) - v.get("minus", 0)) % M64
    if isinstance(v, str):
        return int(v, 0)
    return v


def bytes_of(v):
    if isinstance(v, dict):
        if "zeros" in v:
            return [0] * v["zeros"]
        return [v["fill"]] * v["n"]
    if isinstance(v, str):
        return list(v.encode())
    return list(v)


BLANK = {"start": 0, "new": 0, "prot": 0, "addr": 0, "n": 0, "data": [], "rv": [], "ret": 0, "toolarge": False,
         "gk": "", "mustrun": False, "exp": []}


def project(scenarios, events, rep):
    """harness events -> Trace_Memory events"""
    order, by = vlib.split_by_scenario(events)
    acts = {s["id"]: s["actions"] for s in scenarios}
    out = {}
    for sid in order:
        evs = by[sid]
        res_list = []
        for e in evs:
            ev = e["ev"]
            r = e.get("res", {})
            k = r.get("k", "harness")
            if k == "harness":
                raise vlib.ToolError(f"harness error in {sid}#{e.get('i')}: {r}")
            if ev == "worker":
                rep.finding(f"worker/{k}", {"scenario": {"id": sid, "actions": acts[sid]}})
                continue
            areas = proj_areas(e.get("obs", {}))
            t = dict(BLANK)
            t.update({"ev": "other", "sc": sid, "i": e["i"], "k": k, "hasobs": areas is not None, "areas": areas or []})
            a = acts[sid][e["i"]]
            if k == "skip":
                # depends on the result of a call that failed (judged there): nothing happened
                t["_src"] = e
                res_list.append(t)
                continue
            skip = False
            if ev in ("new", "from_binary"):
                t["ev"] = "new"
                t["exp"] = [[mi(x[0], "segment start"), x[1]] for x in a.get("expect_prot", [])]
            elif ev in ("mem_init_area", "mem_init_zero"):
                t["ev"] = ev
                st = resolve(acts, evs, a["start"])
                t["start"] = mi(st, "start")
                t["data"] = bytes_of(a["data"]) if ev == "mem_init_area" else [0] * a["len"]
            elif ev in ("mem_init_anywhere", "mem_init_zero_anywhere", "init_stack"):
                t["ev"] = ev
                t["data"] = bytes_of(a["data"]) if ev == "mem_init_anywhere" else [0] * a["len"]
                t["ret"] = mi(r["v"], "returned address") if k == "ok" else 0
            elif ev == "mem_resize_section":
                t["ev"] = ev
                t["start"] = mi(resolve(acts, evs, a["start"]), "start")
                t["new"] = mi(resolve(acts, evs, a["new"]), "new size")
            elif ev == "mem_prot":
                t["ev"] = ev
                t["start"] = mi(resolve(acts, evs, a["start"]), "start")
                t["prot"] = a["prot"]
            elif ev == "mem_read_bytes":
                t["ev"] = "read"
                t["addr"] = mi(resolve(acts, evs, a["addr"]), "addr")
                t["n"] = mi(resolve(acts, evs, a["len"]), "len")
                t["rv"] = r.get("v", []) if k == "ok" else []
            elif ev == "mem_read":
                t["ev"] = "read"
                t["addr"] = mi(resolve(acts, evs, a["addr"]), "addr")
                t["n"] = a["w"] // 8
                if k == "ok":
                    t["rv"] = r["v"] if a["w"] == 128 else le_bytes(r["v"], a["w"] // 8)
                    if a["w"] != 128 and r["v"] >= (1 << a["w"]):
                        rep.finding(f"mem_read_{a['w']}-returned-wide-value", {"scenario": {"id": sid, "actions": acts[sid]}, "event": e})
            elif ev == "mem_write_bytes":
                t["ev"] = "write"
                t["addr"] = mi(resolve(acts, evs, a["addr"]), "addr")
                t["data"] = bytes_of(a["data"])
            elif ev == "mem_write":
                t["ev"] = "write"
                t["addr"] = mi(resolve(acts, evs, a["addr"]), "addr")
                if a["w"] == 128:
                    t["data"] = bytes_of(a["val"])
                else:
                    v = resolve(acts, evs, a["val"])
                    t["toolarge"] = v >= (1 << a["w"])
                    t["data"] = le_bytes(v, a["w"] // 8)
            elif ev == "step" and "guest" in a:
                g = a["guest"]
                t["ev"] = "guest"
                t["gk"] = g["kind"]
                t["addr"] = mi(g["addr"], "guest addr")
                t["n"] = g["n"]
                t["data"] = g.get("data", [])
                t["mustrun"] = g.get("mustrun", False)
                if g["kind"] == "hookstore":
                    # a store made through the API from INSIDE a hook of the executed instruction: judged like any store; its outcome is
                    # the inner call's, the footprint is what the step left in memory
                    inner = [x for h in e.get("hooklog", []) for x in h.get("inner", []) if x.get("op") == "mem_write_bytes"]
                    t["gk"] = "store"
                    t["k"] = inner[0]["res"].get("k", "err") if inner else "err"
                # a guest access event is only judged if the instruction itself was fetched at the planned place
            t["_src"] = e
            res_list.append(t)
        # attach loaded values (read back through the register API right after the load)
        for t in res_list:
            a = acts[sid][t["i"]]
            if "loadof" in a and t["k"] == "ok":
                tgt = [x for x in res_list if x["i"] == a["loadof"]]
                if tgt and tgt[0]["k"] == "ok":
                    v = t["_src"]["res"]["v"]
                    tgt[0]["rv"] = (v if isinstance(v, list) else le_bytes(v, 8))[:tgt[0]["n"]]
        out[sid] = res_list
    return order, by, out


def validate(scenarios, wd, tag, rep, jobs, keyfn=None):
    events = vlib.run_scenarios(scenarios, wd, tag)
    order, by, proj = project(scenarios, events, rep)
    acts = {s["id"]: s for s in scenarios}
    groups = vlib.chunks(order, jobs)
    chunks = []
    for g in groups:
        ch = []
        for sid in g:
            for t in proj.get(sid, []):
                ch.append({k: v for k, v in t.items() if k != "_src"})
        if ch:
            chunks.append(ch)
    verdicts = vlib.tlc_trace_parallel("Trace_Memory", "Trace_Memory.cfg", chunks, wd, tag, jobs)
    for v in verdicts:
        sc, i, ev, comps = vlib.parse_tla_tuple(v)
        e = by[sc][i] if i < len(by[sc]) else {}
        a = acts[sc]["actions"][i]
        detail = a.get("guest", {}).get("t") or (f"w{a['w']}" if "w" in a else "")
        key = f"{a['op']}{'/' + detail if detail else ''}/{'+'.join(sorted(comps))}"
        if keyfn:
            key = keyfn(key, a, e)
            if key is None:
                continue              # not this property's concern
        rep.finding(key, {"scenario": acts[sc], "failing_action": i, "event": e})
    nev = sum(len(v) for v in proj.values())
    return nev, len(order), verdicts
