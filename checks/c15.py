"""C15 - loading a well-formed static ELF reproduces its segments, entry and symbols.
MC: MC_Elf enumerates configurations (segment count/order/pages incl. adjacent ones, size classes: equal / bss tail /
exact page multiple(s) / 1 byte / empty, all 8 flag masks, non-load headers, symbol-table shapes); a reference image
satisfies ElfLoad!Post and corrupted images are rejected.
Bind: every model configuration + seeded random 2-3 segment configurations are written as real ELF64 files (own
writer with .symtab/.strtab), loaded with Axecutor::from_binary, and areas (sparse content, permissions), RIP and
resolve_symbol for every defined symbol are observed; TLC validates against ElfLoad!Post.  The bundled testdata
binaries are loaded and checked against their own program headers (parsed independently in Python)."""
import glob
import json
import os
import random
import struct

import elfgen
import vlib

PROP = "C15"
BASE = 0x400000
FILESZ = {"equal": 24, "bss": 16, "page": 4096, "twopage": 8192, "one": 1, "empty": 0, "bsspage": 100, "bssonly": 0, "ua": 128, "ua2": 64}
MEMSZ = {"equal": 24, "bss": 200, "page": 4096, "twopage": 8192, "one": 1, "empty": 0, "bsspage": 4096, "bssonly": 200, "ua": 384, "ua2": 1856}
VOFF = {"ua": 0xf00, "ua2": 0xc0}


def prot_of(f):
    return (1 if f & 4 else 0) | (2 if f & 2 else 0) | (4 if f & 1 else 0)


def config_file(cfg, rng):
    """-> (elf bytes, abstract file record for the spec)"""
    n = cfg["n"]
    order = list(range(n))
    if cfg.get("shuffle"):
        rng.shuffle(order)
    segs = []
    for i in range(n):
        fs = FILESZ[cfg["sz"][i]]
        data = bytes(1 + ((j + i + 1) % 200) for j in range(1, fs + 1))
        segs.append({"type": elfgen.PT_LOAD, "flags": cfg["fl"][i], "vaddr": BASE + cfg["pg"][i] * 4096 + VOFF.get(cfg["sz"][i], 0), "data": data, "memsz": MEMSZ[cfg["sz"][i]]})
    phdrs = [segs[i] for i in order]
    if cfg["extra"] == "note":
        phdrs.insert(0, {"type": elfgen.PT_NOTE, "flags": 4, "vaddr": BASE + cfg["pg"][0] * 4096, "data": b"", "memsz": 0, "filesz": 0})
    elif cfg["extra"] == "gnustack":
        phdrs.append({"type": elfgen.PT_GNU_STACK, "flags": 6, "vaddr": 0, "data": b"", "memsz": 0, "filesz": 0})
    elif cfg["extra"] in ("tls", "relro") and MEMSZ[cfg["sz"][0]] >= 1:
        # a header that refers to the first loadable segment (whatever its flags) without owning memory: the segment keeps
        # the permissions of ITS flags
        s0 = segs[0]
        n0 = min(16, MEMSZ[cfg["sz"][0]])
        phdrs.append({"type": elfgen.PT_TLS if cfg["extra"] == "tls" else 0x6474e552, "flags": 4, "vaddr": s0["vaddr"], "data": b"",
                      "offset": 0, "filesz": min(n0, FILESZ[cfg["sz"][0]]), "memsz": n0, "align": 8})
    entry = BASE + cfg["pg"][0] * 4096 + VOFF.get(cfg["sz"][0], 0)
    symbols = None
    symrec = []
    a1, a2 = entry + 4, entry + 8
    sy = cfg["sy"]
    if sy == "named":
        symbols = [("main", a1, 1), ("helper", a2, 1), ("undef_thing", 0, 0)]
        symrec = [(a1, {"main"}), (a2, {"helper"})]
    elif sy == "unnamed":
        symbols = [(None, a1, 1), ("named_one", a2, 1)]
        symrec = [(a1, {""}), (a2, {"named_one"})]
    elif sy == "dup":
        symbols = [("first", a1, 1), ("second", a1, 1), ("third", a2, 1)]
        symrec = [(a1, {"first", "second"}), (a2, {"third"})]
    elif sy == "entry-other-name":
        symbols = [("main", entry, 1), ("other", a1, 1)]
        symrec = [(entry, {"main"}), (a1, {"other"})]
    if symbols is not None:
        # every DEFINED symbol marks its address, whatever its kind: NOTYPE / OBJECT / FUNC / GNU_IFUNC (how static glibc
        # defines memcpy, strlen, ...) x LOCAL / GLOBAL / WEAK, section-relative or absolute
        symbols = [(nm, v, sh if sh == 0 else rng.choice([1, 1, 0xfff1]), (rng.choice([0, 1, 2]) << 4) | rng.choice([0, 1, 2, 2, 10, 10]))
                   for nm, v, sh in symbols]
    elf = elfgen.build(entry, phdrs, symbols=symbols)
    rec = {"entry": entry,
           "segs": [{"load": True, "vaddr": s["vaddr"], "data": list(s["data"]), "memsz": s["memsz"], "prot": prot_of(s["flags"])} for s in segs],
           "syms": [{"addr": a, "names": sorted(ns)} for a, ns in symrec]}
    return elf, rec


def scenario(sid, elf, rec):
    acts = [{"op": "from_binary", "data": list(elf), "maxbytes": 20000}]
    for s in rec["syms"]:
        acts.append({"op": "resolve_symbol", "addr": s["addr"], "maxbytes": 20000})
    return {"id": sid, "obs": ["regs", "bytes"], "actions": acts}


def parse_elf(path):
    """independent reader of the bundled binaries' program headers"""
    b = open(path, "rb").read()
    entry, phoff = struct.unpack_from("<QQ", b, 24)
    phentsize, phnum = struct.unpack_from("<HH", b, 54)
    segs = []
    for i in range(phnum):
        t, fl, off, va, pa, fs, ms, al = struct.unpack_from("<IIQQQQQQ", b, phoff + i * phentsize)
        if t == 1 and va != 0:
            segs.append({"load": True, "vaddr": va, "data": list(b[off:off + fs]), "memsz": ms, "prot": prot_of(fl)})
    return b, {"entry": entry, "segs": segs, "syms": []}


def project(scenarios, recs, events, rep):
    order, by = vlib.split_by_scenario(events)
    out = []
    for sid in order:
        evs = by[sid]
        if any(e["ev"] == "worker" for e in evs):
            rep.finding("worker/" + [e for e in evs if e["ev"] == "worker"][0]["res"]["k"], {"scenario": sid})
            continue
        ld = evs[0]
        k = ld["res"].get("k")
        obs = {"k": k, "rip": 0, "areas": [], "resolved": []}
        if k == "ok":
            o = ld["obs"]
            obs["rip"] = o["regs"]["RIP"] if o["regs"]["RIP"] < (1 << 30) else -1
            for a in o["areas"]:
                if "data" not in a:
                    raise vlib.ToolError("area too large to observe")
                obs["areas"].append({"start": a["start"], "len": a["len"], "prot": a["prot"], "nz": [[i, x] for i, x in enumerate(a["data"]) if x]})
            for e in evs[1:]:
                r = e["res"]
                obs["resolved"].append({"some": not r.get("none", False) and r.get("k") == "ok", "name": r.get("v", "") if isinstance(r.get("v", ""), str) else ""})
        else:
            obs["resolved"] = [{"some": False, "name": ""} for _ in recs[sid]["syms"]]
        out.append({"sc": sid, "file": recs[sid], "obs": obs, "_msg": ld["res"].get("msg", "")})
    return out


def validate(scs, recs, wd, tag, rep, jobs, cfgs=None):
    events = vlib.run_scenarios(scs, wd, tag)
    proj = project(scs, recs, events, rep)
    chunks = [[{k: v for k, v in t.items() if not k.startswith("_")} for t in c] for c in vlib.chunks(proj, jobs) if c]
    verdicts = vlib.tlc_trace_parallel("Trace_Elf", "Trace_Elf.cfg", chunks, wd, tag, jobs, timeout=3000)
    for v in verdicts:
        sc, i, ev, comps = vlib.parse_tla_tuple(v)
        t = [x for x in proj if x["sc"] == sc][0]
        c = (cfgs or {}).get(sc, {})
        shape = f"{c.get('sz')}/{c.get('sy')}/{c.get('extra')}" if c else "bundled"
        rep.finding(f"{'+'.join(sorted(comps))}/{shape}", {"scenario": sc, "configuration": c, "message": t["_msg"],
                                                          "segments": [{k: (v if k != "data" else len(v)) for k, v in s.items()} for s in t["file"]["segs"]],
                                                          "observed_areas": [{k: v for k, v in a.items() if k != "nz"} for a in t["obs"]["areas"]],
                                                          "resolved": t["obs"]["resolved"], "symbols": t["file"]["syms"]})
    return len(proj)


def random_configs(rng, n):
    cfgs = []
    for _ in range(n):
        k = rng.choice([2, 2, 3])
        pgs = rng.sample([1, 2, 3, 4, 6, 9], k)
        szs = [rng.choice(list(FILESZ)) for _ in range(k)]
        # a two-page segment needs the next page free
        if any(s in ("twopage", "ua") and (p + 1) in pgs for s, p in zip(szs, pgs)):
            continue
        cfgs.append({"n": k, "pg": pgs, "sz": szs, "fl": [rng.randrange(8) for _ in range(k)],
                     "sy": rng.choice(["none", "named", "unnamed", "dup", "entry-other-name"]), "extra": rng.choice(["none", "note", "gnustack", "tls", "relro"]),
                     "shuffle": True})
    return cfgs


def run(tier, seed):
    rep = vlib.Report(PROP, tier, seed, "model_checking")
    rng = random.Random(seed)
    wd = vlib.workdir("c15")
    try:
        q = tier == "quick"
        mc = vlib.tlc_mc("MC_Elf", "MC_Elf.cfg", wd, workers=12, constants={"MaxSegs": "1" if q else "2", "DumpEdges": "TRUE"}, timeout=7200, coverage=False)
        vlib.require_mc_ok(mc, "MC_Elf")
        cfgs = [c for c in mc["edges"]]
        if len(cfgs) < 500:
            raise vlib.ToolError("configuration dump unexpectedly small")
        cfgs += random_configs(rng, 300 if q else 5000)
        scs, recs, cmap = [], {}, {}
        for k, c in enumerate(cfgs):
            elf, rec = config_file(c, rng)
            sid = f"e{k}"
            scs.append(scenario(sid, elf, rec))
            recs[sid] = rec
            cmap[sid] = c
        for path in sorted(glob.glob("/repo/testdata/*.bin")):
            b, rec = parse_elf(path)
            if sum(len(s["data"]) for s in rec["segs"]) > 200000:
                continue
            sid = "bundled:" + os.path.basename(path)
            scs.append(scenario(sid, b, rec))
            recs[sid] = rec
        n = validate(scs, recs, wd, "elf", rep, 8 if q else 14, cmap)
        rep.cov.update({
            "states": mc["distinct"], "transitions": mc["states"], "traces_validated_against_impl": n,
            "model_configurations_replayed": len(mc["edges"]), "evaluations": n,
            "distinct_nontrivial": len({json.dumps(c, sort_keys=True) for c in cfgs}),
            "rule": "case = one generated ELF64 file loaded with from_binary; distinct = distinct configurations (segment count, pages, size classes, "
                    "flags, header order, symbol-table shape, extra headers); plus the bundled testdata binaries checked against their own headers",
            "samples": [cfgs[0], cfgs[-1]],
        })
        rep.assumptions += ["TLC evaluates the specification correctly", "own ELF writer (lib/elfgen.py) produces what the configuration says",
                            "an address that carries only an unnamed symbol must resolve to the empty name",
                            "segments with p_vaddr = 0 are outside the judged class (ax skips them by design)"]
        return rep.finish()
    finally:
        vlib.cleanup(wd)


def replay(path, seed):
    rep = vlib.Report(PROP, "quick", seed, "model_checking")
    case = json.load(open(path))["case"]
    wd = vlib.workdir("c15r")
    try:
        c = case["configuration"]
        if not c:
            raise vlib.ToolError("bundled binary: re-run the check")
        elf, rec = config_file(c, random.Random(seed))
        validate([scenario("r", elf, rec)], {"r": rec}, wd, "r", rep, 1, {"r": c})
        rep.cov.update({"states": 1, "transitions": 1, "traces_validated_against_impl": 1, "samples": [c]})
        return rep.finish()
    finally:
        vlib.cleanup(wd)
