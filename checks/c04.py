"""C04 - PUSH/POP/CALL/RET use the stack pointer and stack memory like hardware."""
import vlib
import progcommon as pc
import x86common as xc

PROP = "C04"
OWNS = lambda c: c in ("reg", "mem", "rip", "out-missing-fault", "out-spurious-error", "out-crash", "fault-moved-state")
DEVKEY = "stack-slot-shifted-by-one"

PROG_OWNS = lambda c, cls, m: cls == "stack" and c in ("reg", "mem", "rip", "out-spurious-error", "out-missing-fault", "known-stack-convention")


def run(tier, seed):
    rep = vlib.Report(PROP, tier, seed, "model_checking")
    wd = vlib.workdir("c04")
    try:
        mc = vlib.tlc_mc("MC_Stack", "MC_Stack.cfg", wd, workers=8, timeout=1200)
        vlib.require_mc_ok(mc, "MC_Stack")
        # the same laws under ax's convention must FAIL (non-vacuity, and the machine-checked statement of the known finding)
        dev = vlib.tlc_mc("MC_Stack", "MC_Stack.cfg", wd, workers=4, timeout=1200, constants={"Dev": "TRUE"}, tag="dev", coverage=False)
        if dev["ok"] or "C04 law violated" not in dev["out"]:
            raise vlib.ToolError("MC_Stack with Dev = TRUE no longer violates the C04 laws (model vacuous?)")
        rep.cov["deviation_model_counterexample_found"] = True
        q = tier == "quick"
        res = xc.judge(rep, "stack", 60 if q else 2400, seed + 3000, wd, "s", OWNS, jobs=8 if q else 14, known_dev_key=DEVKEY)
        rep.cov["samples"] = [{"family": "stack", "example": sorted(res.distinct)[:3]}]
        xc.finish_cov(rep, res, mc, "Every PUSH/POP/CALL/RET form with RSP anywhere in the stack page (incl. misaligned), at and across both edges of the stack "
                      "area, in read-only and in unmapped memory (a refused access must leave RSP, registers and memory as they were), distinct landing pads in "
                      "[rsp] and [rsp+8]; judged: RSP, destination register, every stack byte written, RIP. An event that differs from the "
                      "architecture but equals ax's documented convention EXACTLY (store at old RSP then decrement / increment then load) is "
                      "the known finding; any other difference is a violation.")
        pc.phase(rep, tier, seed + 8400, wd, PROG_OWNS)
        return rep.finish()
    finally:
        vlib.cleanup(wd)


def replay(path, seed):
    import json as _j
    _c = _j.load(open(path))["case"]
    if _c.get("prog"):
        _wd = vlib.workdir(PROP.lower() + "r")
        try:
            return pc.replay(vlib.Report(PROP, "quick", seed, "model_checking"), _c, _wd, PROG_OWNS)
        finally:
            vlib.cleanup(_wd)
    return xc.std_replay(PROP, path, seed, OWNS, DEVKEY)
