"""C08 - guest memory is a consistent little-endian byte store with strict bounds.
MC: MC_Memory (flat shadow memory as ground truth; ReadLaw/WriteLaw on every edge, Coherent invariant).
Bind: model edges replayed + seeded random layouts/histories through the byte and typed API accessors and through
guest loads/stores/RMWs of 1/2/4/8/16 bytes at area edges and near 2^64; validated by Trace_Memory."""
import json
import random

import memcommon as mc
import vlib

PROP = "C08"
M64 = 1 << 64
BASE = 0x1000


def layout(rng, b):
    """2-3 small RW areas starting at BASE with gaps 0..3 (abutting areas exist); returns [(start,len)]"""
    ars = []
    at = BASE + rng.choice([0, 0, 1, 5])
    for _ in range(rng.choice([1, 2, 2, 3])):
        ln = rng.choice([1, 2, 3, 4, 7, 8, 9, 15, 16, 17, 24, 33])
        data = [rng.randrange(1, 256) for _ in range(ln)]
        if rng.random() < 0.3:
            b.api(op="mem_init_zero", start=at, len=ln)
        else:
            b.api(op="mem_init_area", start=at, data=data)
        ars.append((at, ln))
        at += ln + rng.choice([0, 0, 1, 3, 16])
    return ars


def pick_addr(rng, ars, n):
    s, ln = rng.choice(ars)
    t = rng.random()
    if t < 0.08:
        return rng.choice([M64 - 1, M64 - 2, M64 - 8, M64 - 16, M64 - n if n else M64 - 1, 0, 1, BASE - 1])
    return max(0, s + rng.choice([-1, 0, 0, 1, ln - n - 1, ln - n, ln - n, ln - n + 1, ln - 1, ln, ln + 1, rng.randrange(0, max(1, ln))]))


def pick_len(rng, ars):
    t = rng.random()
    if t < 0.06:
        return rng.choice([M64 - 1, M64 - 16, M64 - 0x1000, M64 - 8])
    s, ln = rng.choice(ars)
    return rng.choice([0, 1, 1, 2, 3, 4, 8, 16, ln, ln + 1, ln - 1 if ln > 1 else 1])


def resize(rng, b, ars):
    """shrink / grow one area (the believed layout `ars` is updated optimistically: a refused resize only makes later
    accesses probe slightly different offsets; the specification, not this list, decides every outcome)"""
    k = rng.randrange(len(ars))
    s, ln = ars[k]
    new = max(0, rng.choice([ln - 1, ln - 2, ln - 5, ln // 2, ln + 1, ln + 3, ln + 9, 1, ln]))
    b.api(op="mem_resize_section", start=s, new=new)
    nxt = min([a for a, _ in ars if a > s] or [1 << 40])
    if s + new <= nxt:
        ars[k] = (s, new)
    return s, ln, new


def shrink_regrow_scenarios(rng, n):
    """histories in which an area is shrunk and grown again: bytes beyond the new end are unmapped for every access path
    (also for an access that only runs over it), and come back as zeros when the area grows again"""
    scs = []
    loads = [t for t, v in mc.TEMPLATES.items() if v[1] == "load"]
    stores = [t for t, v in mc.TEMPLATES.items() if v[1] in ("store", "sti", "rmw")]
    for k in range(n):
        b = mc.Builder(f"srg{k}")
        ln = rng.choice([16, 24, 33, 40])
        b.api(op="mem_init_area", start=BASE, data=[rng.randrange(1, 256) for _ in range(ln)])
        if rng.random() < 0.5:
            b.api(op="mem_write_bytes", addr=BASE + ln - 8, data=[0x11] * 8)
        cur = ln
        for _ in range(rng.choice([1, 2, 3])):
            new = rng.choice([cur - 1, cur - 4, cur - 8, cur // 2, max(1, cur - 12)])
            new = max(1, new)
            b.api(op="mem_resize_section", start=BASE, new=new)
            # accesses inside, straddling the new end, and in the released part
            for _ in range(rng.choice([1, 2, 3])):
                w = rng.choice([1, 2, 4, 8, 16])
                addr = BASE + max(0, new - w + rng.choice([-1, 0, 1, 1, 2, w - 1, w, w + 2]))
                u = rng.random()
                if u < 0.25:
                    b.api(op="mem_read_bytes", addr=addr, len=w)
                elif u < 0.40:
                    b.api(op="mem_read", w=w * 8, addr=addr)
                elif u < 0.55:
                    b.api(op="mem_write_bytes", addr=addr, data=[rng.randrange(1, 256) for _ in range(w)])
                elif u < 0.80:
                    t = rng.choice([x for x in loads if mc.TEMPLATES[x][2] == w] or loads)
                    b.guest(t, BASE + max(0, new - mc.TEMPLATES[t][2] + rng.choice([0, 1, 1, mc.TEMPLATES[t][2] - 1, mc.TEMPLATES[t][2]])))
                else:
                    t = rng.choice([x for x in stores if mc.TEMPLATES[x][2] == w] or stores)
                    b.guest(t, BASE + max(0, new - mc.TEMPLATES[t][2] + rng.choice([0, 1, 1, mc.TEMPLATES[t][2] - 1, mc.TEMPLATES[t][2]])))
            if rng.random() < 0.35 and cur - new >= 2:
                # a NEW area in the range the shrink released (directly behind the shrunk one, or one byte further), used at once:
                # it is a store of its own, and the shrunk area keeps its bounds
                gap = rng.choice([0, 0, 1])
                nl = max(1, cur - new - gap)
                b.api(op="mem_read_bytes", addr=BASE, len=min(new, 4))
                b.api(op="mem_init_area", start=BASE + new + gap, data=[rng.randrange(1, 256) for _ in range(nl)])
                b.api(op="mem_read_bytes", addr=BASE + new + gap, len=nl)
                b.api(op="mem_write_bytes", addr=BASE + new + gap, data=[0x5a] * min(nl, 3))
                if nl >= 4:
                    b.guest("load32", BASE + new + gap)
                    b.guest("store32", BASE + new + gap + nl - 4)
                b.api(op="mem_read_bytes", addr=BASE + max(0, new - 2), len=4)
                scs.append(b.scenario())
                break
            if rng.random() < 0.7:
                grown = new + rng.choice([1, 4, 8, cur - new, cur - new + 4, 16])
                b.api(op="mem_resize_section", start=BASE, new=grown)
                b.api(op="mem_read_bytes", addr=BASE + max(0, new - 2), len=min(grown - max(0, new - 2), 24))
                if rng.random() < 0.5:
                    b.guest("load64", BASE + min(new, grown - 8))
                cur = grown
            else:
                cur = new
        else:
            scs.append(b.scenario())
    return scs


def regrow_empty_scenarios(rng, n):
    """an area shrunk to NOTHING, another area created around the place, stores into it, then the empty one is grown again:
    the growth must be refused (it would take addresses of the other area) and the stores must read back"""
    scs = []
    for k in range(n):
        b = mc.Builder(f"rge{k}")
        at = BASE + rng.choice([8, 16, 20])
        ln = rng.choice([4, 8, 16])
        b.api(op="mem_init_area", start=at, data=[rng.randrange(1, 256) for _ in range(ln)])
        b.api(op="mem_resize_section", start=at, new=0)
        lo = at - rng.choice([0, 4, 8])
        b.api(op="mem_init_area", start=lo, data=[rng.randrange(1, 256) for _ in range(at - lo + ln + rng.choice([0, 4, 12]))])
        b.api(op="mem_write_bytes", addr=at, data=[0xa1, 0xa2, 0xa3, 0xa4])
        b.api(op="mem_resize_section", start=at, new=rng.choice([1, 4, ln, ln + 8]))
        b.api(op="mem_read_bytes", addr=at, len=4)
        b.guest("load32", at)
        b.guest("store32", at)
        b.api(op="mem_resize_section", start=at, new=0)
        b.api(op="mem_read_bytes", addr=lo, len=at - lo + 4)
        scs.append(b.scenario())
    return scs


def api_scenarios(rng, n, length):
    scs = []
    for k in range(n):
        b = mc.Builder(f"api{k}")
        ars = layout(rng, b)
        for _ in range(length):
            t = rng.random()
            if t < 0.07:
                resize(rng, b, ars)
            elif t < 0.11:
                # an "anywhere" block is a store of its own: fresh range, holds what is written to it
                ln = rng.choice([8, 16, 48, 64, 100])
                idx = b.api(op="mem_init_zero_anywhere", len=ln)
                b.api(op="mem_write_bytes", addr={"ref": idx, "plus": rng.choice([0, 3, ln - 4])}, data=[rng.randrange(1, 256) for _ in range(4)])
                b.api(op="mem_read_bytes", addr={"ref": idx}, len=ln)
            elif t < 0.30:
                ln = pick_len(rng, ars)
                b.api(op="mem_read_bytes", addr=pick_addr(rng, ars, ln if ln < 64 else 1), len=ln)
            elif t < 0.55:
                ln = rng.choice([0, 1, 2, 3, 4, 8, 16, 17])
                b.api(op="mem_write_bytes", addr=pick_addr(rng, ars, ln), data=[rng.randrange(256) for _ in range(ln)])
            elif t < 0.75:
                w = rng.choice([8, 16, 32, 64, 128])
                b.api(op="mem_read", w=w, addr=pick_addr(rng, ars, w // 8))
            else:
                w = rng.choice([8, 16, 32, 64, 128])
                if w == 128:
                    b.api(op="mem_write", w=w, addr=pick_addr(rng, ars, 16), val=[rng.randrange(256) for _ in range(16)])
                else:
                    v = rng.getrandbits(w)
                    if rng.random() < 0.15:
                        v = rng.choice([1 << w, (1 << w) + 5, M64 - 1]) if w < 64 else v
                    b.api(op="mem_write", w=w, addr=pick_addr(rng, ars, w // 8), val=v)
        scs.append(b.scenario())
    return scs


GUEST = [t for t, v in mc.TEMPLATES.items() if v[1] in ("load", "store", "sti", "rmw")]


def guest_scenarios(rng, n, length):
    scs = []
    for k in range(n):
        b = mc.Builder(f"guest{k}")
        ars = layout(rng, b)
        for _ in range(length):
            if rng.random() < 0.06:
                resize(rng, b, ars)
                continue
            t = rng.choice(GUEST)
            nb = mc.TEMPLATES[t][2]
            addr = pick_addr(rng, ars, nb)
            val = [rng.randrange(256) for _ in range(nb)] if mc.TEMPLATES[t][1] == "store" else None
            b.guest(t, addr, val)
            if rng.random() < 0.3:
                b.api(op="mem_read_bytes", addr=max(0, min(addr, M64 - 1) - 2) if addr < (1 << 29) else BASE, len=rng.choice([4, 8, 20]))
        scs.append(b.scenario())
    return scs


def edge_scenarios(edges):
    """MC_Memory edges: model address a |-> BASE + a; far values (HUGE - k) |-> 2^64 - k"""
    def cv(a):
        return M64 - (vlib.HUGE - a) if a > (1 << 29) else BASE + a

    def cl(a):
        return M64 - (vlib.HUGE - a) if a > (1 << 29) else a
    scs = []
    for k, e in enumerate(edges):
        b = mc.Builder(f"edge{k}")
        for h in e["hist"]:
            op = h["op"]
            if op == "mem_init_area":
                b.api(op=op, start=cv(h["start"]), data=h["data"])
            elif op == "mem_init_zero":
                b.api(op=op, start=cv(h["start"]), len=h["len"])
            elif op == "mem_init_anywhere":
                b.api(op=op, data=h["data"])
            elif op == "mem_resize_section":
                b.api(op=op, start=cv(h["start"]), new=h["new"])
            elif op == "mem_prot":
                b.api(op=op, start=cv(h["start"]), prot=h["prot"])
            elif op == "mem_read_bytes":
                b.api(op=op, addr=cv(h["addr"]), len=cl(h["len"]))
            elif op == "mem_write_bytes":
                b.api(op=op, addr=cv(h["addr"]), data=h["data"])
        scs.append(b.scenario())
    return scs


def mc_phase(wd, tier, depth_quick="3", depth_thorough="4"):
    res = vlib.tlc_mc("MC_Memory", "MC_Memory.cfg", wd, workers=8 if tier == "quick" else 14,
                      constants={"MaxDepth": depth_quick if tier == "quick" else depth_thorough},
                      timeout=3000, coverage=(tier == "quick"))
    vlib.require_mc_ok(res, "MC_Memory")
    return res


def mbt_edges(wd):
    res = vlib.tlc_mc("MC_Memory", "MC_Memory.cfg", wd, workers=1, coverage=False,
                      constants={"MaxDepth": "2", "DumpEdges": "TRUE", "MaxAddr": "5"}, tag="mbt")
    vlib.require_mc_ok(res, "MC_Memory (edge dump)")
    if len(res["edges"]) < 500:
        raise vlib.ToolError("edge dump unexpectedly small")
    return res["edges"]


def run(tier, seed):
    rep = vlib.Report(PROP, tier, seed, "model_checking")
    rng = random.Random(seed)
    wd = vlib.workdir("c08")
    try:
        res = mc_phase(wd, tier)
        edges = [e for e in mbt_edges(wd) if any(h["op"] in ("mem_read_bytes", "mem_write_bytes") for h in e["hist"])]
        sc1 = edge_scenarios(edges)
        n1, s1, _ = mc.validate(sc1, wd, "edges", rep, 8)
        q = tier == "quick"
        sc2 = api_scenarios(rng, 250 if q else 16000, 14 if q else 24)
        n2, s2, _ = mc.validate(sc2, wd, "api", rep, 8 if q else 14)
        sc3 = guest_scenarios(rng, 200 if q else 12000, 8 if q else 14)
        sc3 += shrink_regrow_scenarios(rng, 120 if q else 10000) + regrow_empty_scenarios(rng, 40 if q else 2000)
        n3, s3, _ = mc.validate(sc3, wd, "guest", rep, 8 if q else 14)
        kinds = set()
        for s in sc1 + sc2 + sc3:
            for a in s["actions"]:
                kinds.add((a["op"], a.get("w"), a.get("guest", {}).get("t"), isinstance(a.get("addr"), int) and a.get("addr", 0) > (1 << 60)))
        rep.cov.update({
            "states": res["distinct"], "transitions": res["states"],
            "traces_validated_against_impl": s1 + s2 + s3, "events_validated": n1 + n2 + n3,
            "model_edges_replayed": len(edges), "evaluations": n1 + n2 + n3, "distinct_nontrivial": len(kinds),
            "rule": "case = one API call or one annotated guest access; distinct = (operation, width, guest template, near-2^64?) combinations; "
                    "edges = every read/write-containing transition of MC_Memory at depth 2; random = seeded layouts of 1-3 small areas "
                    "(abutting/gapped) with accesses at start-1/start/end-n/end/end+1 and at addresses/lengths near 2^64",
            "samples": [sc1[len(sc1) // 3], sc2[0], sc3[0]],
        })
        rep.assumptions += ["TLC evaluates the specification correctly", "u64 -> model address mapping preserves comparisons (areas below 2^29)",
                            "guest templates: hand-assembled [rbx]-addressed instructions; the value semantics of the instructions is C01's"]
        return rep.finish()
    finally:
        vlib.cleanup(wd)


def replay(path, seed):
    rep = vlib.Report(PROP, "quick", seed, "model_checking")
    case = json.load(open(path))["case"]
    wd = vlib.workdir("c08r")
    try:
        mc.validate([case["scenario"]], wd, "replay", rep, 1)
        rep.cov.update({"states": 1, "transitions": 1, "traces_validated_against_impl": 1, "samples": [case["scenario"]]})
        return rep.finish()
    finally:
        vlib.cleanup(wd)
