"""C13 - the built-in brk handler gives the guest a working, growing heap.
MC: MC_Brk (reference heap next to a neighbouring area: no overlap, bytes below the break retained, query returns the break).
Bind: guest `syscall` instructions with RAX=12 through the built-in handler, interleaved with guest stores/loads
(1/8 bytes) into the heap, under surrounding layouts (areas occupying the first candidate addresses, a small
neighbour above the heap with a gap - reachable only by a brk that jumps over it); sequences query / grow / shrink /
regrow to previous breaks / below the base.  Validated by Trace_Brk with the handler's bounds, the heap area (sparse
bytes) and the other areas logged after every call."""
import json
import random

import vlib
from vlib import model_int

PROP = "C13"
CODE = 0x100000
DELTAS = [0, 1, 8, 0x10, 0x7f8, 0x800, 0xff8, 0x1000, 0x1001, 0x1008, 0x1800, 0x1808, 0x1810, 0x1820, 0x2000, 0x2800, 0x3000]


def scenario(rng, k, length):
    code = bytearray()
    acts = []
    # surrounding layout: sometimes occupy the first candidate addresses of the 'anywhere' search
    lay = rng.choice(["none", "low", "low2", "none", "unordered", "unordered3"])
    if lay in ("low", "low2"):
        acts.append({"op": "mem_init_zero", "start": 0x1000, "len": rng.choice([0x10, 0x800, 0x1000])})
    if lay == "low2":
        acts.append({"op": "mem_init_zero", "start": 0x2000, "len": 0x20})
    if lay.startswith("unordered"):
        # the candidate pages are blocked by areas that were NOT created in ascending address order
        order = [0x3000, 0x1000, 0x2000] if lay == "unordered" else [0x4000, 0x2000, 0x1000, 0x3000]
        for a0 in order:
            acts.append({"op": "mem_init_zero", "start": a0 + rng.choice([0, 0, 0x10]), "len": rng.choice([0x10, 0x800, 0x1000 - 0x10])})
    acts.append({"op": "handle_syscalls", "list": ["Brk"]})

    def sysc(p):
        acts.append({"op": "reg_write", "w": 64, "reg": "RAX", "val": 12})
        acts.append({"op": "reg_write", "w": 64, "reg": "RDI", "val": p})
        code.extend(b"\x0f\x05")
        acts.append({"op": "step", "bcall": {"kind": "brk", "p": p}})
    sysc(0)
    acts.append({"op": "reg_read", "w": 64, "reg": "RAX"})
    bref = len(acts)          # index in the final list ("new" is prepended)
    B = lambda d: {"ref": bref, "plus": d} if d >= 0 else {"ref": bref, "minus": -d}
    if rng.random() < 0.6:
        # a small neighbour above the heap (the initial heap is 0x1000 long), with or without a gap
        acts.append({"op": "mem_init_zero", "start": B(rng.choice([0x1000, 0x1800, 0x1800, 0x2000])), "len": rng.choice([0x10, 0x10, 0x800])})
    for _ in range(length):
        u = rng.random()
        if u < 0.12:
            sysc(0)
        elif u < 0.5:
            d = rng.choice(DELTAS)
            sysc(B(d) if rng.random() < 0.7 else B(-rng.choice([1, 8, 0x800, 0xff8, 0x1000, 0x1001, 0x1008, 0x2000])))
        elif u < 0.78:
            n = rng.choice([1, 8])
            off = rng.choice([0, 7, 8, 0x7f0, 0xff0, 0xff8, 0xfff, 0x1000, 0x17f8, 0x1ff8, 0x2ff8, -1, -8, -9, -0x800, -0xff8, -0x1000, -0x1001])
            data = [rng.randrange(1, 256) for _ in range(n)]
            acts.append({"op": "reg_write", "w": 64, "reg": "RBX", "val": B(off)})
            acts.append({"op": "reg_write", "w": 64, "reg": "RAX", "val": vlib.from_le(data + [0] * (8 - n))})
            code.extend(b"\x88\x03" if n == 1 else b"\x48\x89\x03")
            acts.append({"op": "step", "bcall": {"kind": "store", "off": off, "data": data}})
        else:
            n = rng.choice([1, 8])
            off = rng.choice([0, 7, 8, 0x7f0, 0xff0, 0xff8, 0xfff, 0x1000, 0x17f8, 0x1ff8, -1, -8, -9, -0x800, -0xff8, -0x1000, -0x1001])
            acts.append({"op": "reg_write", "w": 64, "reg": "RBX", "val": B(off)})
            code.extend(b"\x8a\x03" if n == 1 else b"\x48\x8b\x03")
            acts.append({"op": "step", "bcall": {"kind": "load", "off": off, "n": n}})
            acts.append({"op": "reg_read", "w": 64, "reg": "RAX", "loadof": len(acts)})
    code.extend(b"\x90" * 4)
    full = [{"op": "new", "code": list(code), "start": CODE, "rip": CODE}] + acts
    return {"id": f"b{k}", "obs": ["regs", "sys", "bytes"], "actions": [dict(a, maxbytes=0x5000) for a in full]}


BLANK = {"p": 0, "rax": 0, "base": 0, "cur": 0, "heap": {"len": 0, "prot": 0, "nz": []}, "others": [], "addr": 0, "n": 0, "data": [], "rv": []}


def mi(v):
    m = model_int(v)
    return m if m is not None else -2


def project(scenarios, events, rep):
    order, by = vlib.split_by_scenario(events)
    scn = {s["id"]: s for s in scenarios}
    out = {}
    for sid in order:
        evs = by[sid]
        acts = scn[sid]["actions"]
        res = []
        bval = None
        for e in evs:
            r = e.get("res", {})
            k = r.get("k", "harness")
            if k == "harness":
                raise vlib.ToolError(f"harness error in {sid}#{e.get('i')}: {r}")
            if e["ev"] == "worker":
                rep.finding(f"worker/{k}", {"scenario": scn[sid]})
                continue
            o = e.get("obs", {})
            a = acts[e["i"]]
            t = json.loads(json.dumps(BLANK))
            t.update({"ev": "new" if e["ev"] == "new" else "other", "sc": sid, "i": e["i"], "k": k, "hasobs": "brk_start" in o})
            if "brk_start" in o:
                bs, bl = o["brk_start"], o["brk_len"]
                t["base"], t["cur"] = mi(bs), mi(bs + bl) if bs + bl < (1 << 64) else -2
                for ar in o.get("areas", []):
                    if bs != 0 and ar["start"] == bs and "data" in ar and t["heap"]["len"] == 0 and ar["len"] > 0:
                        t["heap"] = {"len": mi(ar["len"]), "prot": ar["prot"], "nz": [[i, b] for i, b in enumerate(ar["data"]) if b]}
                    elif bs != 0 and ar["start"] == bs and ar["len"] == 0 and t["heap"]["len"] == 0:
                        t["heap"] = {"len": 0, "prot": ar["prot"], "nz": []}
                    else:
                        t["others"].append([mi(ar["start"]), mi(ar["len"])])
            if e["ev"] == "reg_read" and bval is None and "loadof" not in a and k == "ok":
                bval = r["v"]

            def conc(v):
                if isinstance(v, dict):
                    if bval is None:
                        return None
                    return (bval + v.get("plus", 0) - v.get("minus", 0)) % (1 << 64)
                return v
            if e["ev"] == "step" and "bcall" in a:
                bc = a["bcall"]
                rax = o.get("regs", {}).get("RAX", 0)
                if bc["kind"] == "brk":
                    p = conc(bc["p"])
                    t["ev"] = "brk"
                    t["p"] = mi(p) if p is not None else -2
                    t["rax"] = mi(rax)
                elif bval is not None:
                    t["ev"] = bc["kind"]
                    t["addr"] = mi(bval + bc["off"])
                    if bc["kind"] == "store":
                        t["data"] = bc["data"]
                    else:
                        t["n"] = bc["n"]
            res.append(t)
        for t in res:
            a = acts[t["i"]]
            if "loadof" in a and t["k"] == "ok":
                tgt = [x for x in res if x["i"] == a["loadof"]]
                if tgt and tgt[0]["k"] == "ok":
                    v = [e for e in evs if e["i"] == t["i"]][0]["res"]["v"]
                    tgt[0]["rv"] = vlib.le_bytes(v, 8)[:tgt[0]["n"]]
        # loads whose value could not be read back are not judged on the value: give them the expected width of zeros? no: drop to 'other'
        for t in res:
            if t["ev"] == "load" and t["k"] == "ok" and not t["rv"]:
                t["ev"] = "other"
        out[sid] = res
    return order, by, out


def validate(scenarios, wd, tag, rep, jobs):
    events = vlib.run_scenarios(scenarios, wd, tag)
    order, by, proj = project(scenarios, events, rep)
    scn = {s["id"]: s for s in scenarios}
    chunks = [[t for sid in g for t in proj.get(sid, [])] for g in vlib.chunks(order, jobs) if g]
    verdicts = vlib.tlc_trace_parallel("Trace_Brk", "Trace_Brk.cfg", [c for c in chunks if c], wd, tag, jobs)
    for v in verdicts:
        sc, i, ev, comps = vlib.parse_tla_tuple(v)
        e = by[sc][i] if i < len(by[sc]) else {}
        t = [x for x in proj[sc] if x["i"] == i][0]
        rep.finding(f"{ev}/{'+'.join(sorted(comps))}", {"scenario": scn[sc], "failing_action": i,
                                                        "projected": {k: v for k, v in t.items() if k != "heap"},
                                                        "event": {k: v for k, v in e.items() if k != "obs"}})
    return sum(len(v) for v in proj.values()), len(order)


def run(tier, seed):
    rep = vlib.Report(PROP, tier, seed, "model_checking")
    rng = random.Random(seed)
    wd = vlib.workdir("c13")
    try:
        q = tier == "quick"
        res = vlib.tlc_mc("MC_Brk", "MC_Brk.cfg", wd, workers=8, constants={"MaxOps": "9" if q else "16"}, timeout=3000)
        vlib.require_mc_ok(res, "MC_Brk")
        scs = [scenario(rng, k, 12 if q else 20) for k in range(150 if q else 3000)]
        n, s = validate(scs, wd, "brk", rep, 8 if q else 14)
        shapes = set()
        for sc in scs:
            for a in sc["actions"]:
                if "bcall" in a:
                    bc = a["bcall"]
                    p = bc.get("p")
                    shapes.add((bc["kind"], p if not isinstance(p, dict) else ("+%x" % p.get("plus", 0) if "plus" in p else "-%x" % p["minus"]), bc.get("off")))
        rep.cov.update({
            "states": res["distinct"], "transitions": res["states"], "traces_validated_against_impl": s,
            "events_validated": n, "evaluations": n, "distinct_nontrivial": len(shapes),
            "rule": "case = one guest brk syscall or one guest heap access; distinct = (kind, break delta relative to the first break, offset)",
            "samples": [scs[0]],
        })
        rep.assumptions += ["TLC evaluates the specification correctly", "heap base = the handler's brk_start read through the cfg(ax_verif) accessor",
                            "bytes regrown after a shrink are unspecified; accesses at or above the break are not judged; brk(p) with 0 < p < base "
                            "must only not crash and not create an overlap"]
        return rep.finish()
    finally:
        vlib.cleanup(wd)


def replay(path, seed):
    rep = vlib.Report(PROP, "quick", seed, "model_checking")
    case = json.load(open(path))["case"]
    wd = vlib.workdir("c13r")
    try:
        validate([case["scenario"]], wd, "replay", rep, 1)
        rep.cov.update({"states": 1, "transitions": 1, "traces_validated_against_impl": 1, "samples": [case["scenario"]["id"]]})
        return rep.finish()
    finally:
        vlib.cleanup(wd)
