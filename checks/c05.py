"""C05 - effective addresses of memory operands equal the CPU's for every addressing form."""
import vlib
import x86common as xc

PROP = "C05"
OWNS = lambda c: c in ("reg", "mem", "xmm", "out-missing-fault", "out-spurious-error", "out-crash")
OWNS_S = lambda c: c in ("reg", "mem", "rip", "out-missing-fault", "out-spurious-error", "out-crash")
RSP_MEM = lambda m: "[rsp" in m["text"].lower()


def run(tier, seed):
    rep = vlib.Report(PROP, tier, seed, "model_checking")
    wd = vlib.workdir("c05")
    try:
        mc = vlib.tlc_mc("MC_EA", "MC_EA.cfg", wd, workers=8, timeout=1200)
        vlib.require_mc_ok(mc, "MC_EA")
        q = tier == "quick"
        res = xc.judge(rep, "ea", 36 if q else 2000, seed + 4000, wd, "e", OWNS, jobs=8 if q else 14)
        # memory operands of PUSH / POP / CALL addressed through RSP: the address is formed with the RSP value from BEFORE the
        # instruction's own stack adjustment (POP [rsp+d]: after the increment, as the SDM says) - X86.tla's Push/Pop/Call
        xc.judge(rep, "stack", 24 if q else 1200, seed + 4100, wd, "s", OWNS_S, jobs=8 if q else 14, res=res, case_filter=RSP_MEM, skip_dev=True)
        rep.cov["samples"] = [{"family": "ea", "example": sorted(res.distinct)[:3]}]
        xc.finish_cov(rep, res, mc, "LEA r16/r32/r64 and MOV/MOVZX/ADD/MOVUPS loads and stores over base / base+disp8 / base+disp32 / base+index*scale(+disp) / "
                      "index*scale+disp32 / absolute / RIP-relative shapes, all 16 base and 15 index registers, scales 1-8, wrapping register values, "
                      "FS/GS bases (GS natively through arch_prctl; FS by the specification alone), 0x67 address size; PUSH/POP/CALL r/m operands addressed through RSP (stack family). Memory is a position-dependent "
                      "pattern, so a wrong address shows as a wrong loaded value or a write at another place.")
        return rep.finish()
    finally:
        vlib.cleanup(wd)


def replay(path, seed):
    import json
    if json.load(open(path))["case"]["family"] == "stack":
        return xc.std_replay(PROP, path, seed, OWNS_S, case_filter=RSP_MEM, skip_dev=True)
    return xc.std_replay(PROP, path, seed, OWNS)
