"""C06 - a step fails exactly when the real CPU would fault."""
import vlib
import x86common as xc

PROP = "C06"
OWNS = lambda c: c.startswith("out-")


def run(tier, seed):
    rep = vlib.Report(PROP, tier, seed, "model_checking")
    wd = vlib.workdir("c06")
    try:
        mc = xc.mc_bv(wd, tier)
        q = tier == "quick"
        res = xc.judge(rep, "fault", 14 if q else 280, seed + 5000, wd, "f", OWNS, jobs=8 if q else 14)
        xc.judge(rep, "data", 6 if q else 100, seed + 5000, wd, "d", OWNS, res=res)
        rep.cov["samples"] = [{"families": ["fault", "data"], "example": sorted(res.distinct)[:3]}]
        xc.finish_cov(rep, res, mc, "DIV/IDIV with dividends built as q*d+r for q at the representability boundary (and zero divisors); every "
                      "memory-capable form with its operand in read-write, read-only, unmapped (hole, page 0), straddling-the-end, exactly-fitting "
                      "and misaligned memory; natively the fault is the signal that kills the worker (SIGFPE / SIGSEGV).")
        return rep.finish()
    finally:
        vlib.cleanup(wd)


def replay(path, seed):
    return xc.std_replay(PROP, path, seed, OWNS)
