"""C06 - a step fails exactly when the real CPU would fault."""
import random

import c08
import memcommon as mcm
import vlib
import progcommon as pc
import x86common as xc

PROP = "C06"
OWNS = lambda c: c.startswith("out-")


def _mine(key, a, e):
    """of the memory-history verdicts, C06 owns the outcome of GUEST accesses: a completed access to unmapped memory, a
    completed store to non-writable memory, a refused or crashing access the CPU would complete"""
    if a.get("op") != "step" or "guest" not in a:
        return None
    comps = key.rsplit("/", 1)[-1].split("+")
    kind = a["guest"]["kind"]
    mine = [c for c in comps if c.endswith("-out-of-bounds-accepted") or c.endswith("-crash") or c.endswith("-err")
            or (c.endswith("-permission-ignored") and kind in ("store", "sti", "rmw", "push"))]
    return f"history/{a['guest']['t']}/{'+'.join(sorted(mine))}" if mine else None


def history_phase(rep, seed, wd, quick):
    """the mapping a fault depends on is a product of the machine's history: areas shrunk, grown again and re-protected.
    Guest accesses inside / across / beyond the current end of such areas, judged by Trace_Memory (Memory.tla)."""
    rng = random.Random(seed + 77)
    scs = c08.shrink_regrow_scenarios(rng, 150 if quick else 3000)
    nev, nsc, _ = mcm.validate(scs, wd, "hist", rep, 8 if quick else 14, keyfn=_mine)
    return nev, nsc

PROG_OWNS = lambda c, cls, m: c.startswith("out-")


def run(tier, seed):
    rep = vlib.Report(PROP, tier, seed, "model_checking")
    wd = vlib.workdir("c06")
    try:
        mc = xc.mc_bv(wd, tier)
        q = tier == "quick"
        res = xc.judge(rep, "fault", 14 if q else 900, seed + 5000, wd, "f", OWNS, jobs=8 if q else 14)
        xc.judge(rep, "data", 6 if q else 300, seed + 5000, wd, "d", OWNS, res=res)
        hev, hsc = history_phase(rep, seed, wd, q)
        rep.cov["samples"] = [{"families": ["fault", "data"], "example": sorted(res.distinct)[:3]}]
        xc.finish_cov(rep, res, mc, "DIV/IDIV with dividends built as q*d+r for q at the representability boundary (and zero divisors); every "
                      "memory-capable form with its operand in read-write, read-only, unmapped (hole, page 0), straddling-the-end, exactly-fitting "
                      "and misaligned memory; natively the fault is the signal that kills the worker (SIGFPE / SIGSEGV).  "
                      f"Plus {hsc} shrink/regrow histories ({hev} events) with guest accesses inside/across/beyond the current end of a resized "
                      "area, judged by Memory.tla through Trace_Memory.")
        rep.cov["history_events_validated"] = hev
        pc.phase(rep, tier, seed + 8600, wd, PROG_OWNS)
        return rep.finish()
    finally:
        vlib.cleanup(wd)


def replay(path, seed):
    import json as _j
    _c = _j.load(open(path))["case"]
    if _c.get("prog"):
        _wd = vlib.workdir(PROP.lower() + "r")
        try:
            return pc.replay(vlib.Report(PROP, "quick", seed, "model_checking"), _c, _wd, PROG_OWNS)
        finally:
            vlib.cleanup(_wd)
    import json
    case = json.load(open(path))["case"]
    if "scenario" in case:
        rep = vlib.Report(PROP, "quick", seed, "model_checking")
        wd = vlib.workdir("c06r")
        try:
            mcm.validate([case["scenario"]], wd, "replay", rep, 1, keyfn=_mine)
            rep.cov.update({"states": 1, "transitions": 1, "traces_validated_against_impl": 1, "samples": [case["scenario"]["id"]]})
            return rep.finish()
        finally:
            vlib.cleanup(wd)
    return xc.std_replay(PROP, path, seed, OWNS)
