"""C02 - status flags after every instruction match real hardware where defined; unaffected flags keep their value."""
import vlib
import x86common as xc

PROP = "C02"
OWNS = lambda c: c == "flags"


def run(tier, seed):
    rep = vlib.Report(PROP, tier, seed, "model_checking")
    wd = vlib.workdir("c02")
    try:
        mc = xc.mc_bv(wd, tier)
        q = tier == "quick"
        res = xc.judge(rep, "data", 16 if q else 300, seed + 1000, wd, "d", OWNS, jobs=8 if q else 14)
        for fam in ("flow", "stack"):
            xc.judge(rep, fam, 4 if q else 40, seed + 1000, wd, fam[0], OWNS, res=res)
        rep.cov["samples"] = [{"families": ["data", "flow", "stack"], "example": sorted(res.distinct)[:3]}]
        xc.finish_cov(rep, res, mc, "Incoming CF/PF/AF/ZF/SF/OF (and DF) drawn at random per case; shift counts from "
                      "{0,1,w-1,w,w+1,31,32,33,63,64,65,128,255,random} in CL and imm8; flag status per class: defined / undefined / unaffected.")
        return rep.finish()
    finally:
        vlib.cleanup(wd)


def replay(path, seed):
    return xc.std_replay(PROP, path, seed, OWNS)
