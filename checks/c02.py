"""C02 - status flags after every instruction match real hardware where defined; unaffected flags keep their value."""
import vlib
import progcommon as pc
import x86common as xc

PROP = "C02"
OWNS = lambda c: c == "flags"

PROG_OWNS = lambda c, cls, m: c == "flags"


def run(tier, seed):
    rep = vlib.Report(PROP, tier, seed, "model_checking")
    wd = vlib.workdir("c02")
    try:
        mc = xc.mc_bv(wd, tier)
        q = tier == "quick"
        res = xc.judge(rep, "data", 16 if q else 1000, seed + 1000, wd, "d", OWNS, jobs=8 if q else 14)
        for fam in ("flow", "stack"):
            xc.judge(rep, fam, 4 if q else 120, seed + 1000, wd, fam[0], OWNS, res=res)
        rep.cov["samples"] = [{"families": ["data", "flow", "stack"], "example": sorted(res.distinct)[:3]}]
        t8 = xc.table8(rep, wd, False, True, workers=8 if q else 14)
        rep.cov["exhaustive_8bit"] = {"spec_rows_from_tlc": t8["rows"], "form_variants": t8["variants"], "cases": t8["cases"],
                                      "note": "every 8-bit operand pair x carry-in (all counts for shifts) of every 8-bit form/shape against tables printed by TLC from X86.tla"}
        xc.finish_cov(rep, res, mc, "Incoming CF/PF/AF/ZF/SF/OF (and DF) drawn at random per case; shift counts from "
                      "{0,1,w-1,w,w+1,31,32,33,63,64,65,128,255,random} in CL and imm8; flag status per class: defined / undefined / unaffected.")
        pc.phase(rep, tier, seed + 8200, wd, PROG_OWNS)
        return rep.finish()
    finally:
        vlib.cleanup(wd)


def replay(path, seed):
    import json as _j
    _c = _j.load(open(path))["case"]
    if _c.get("prog"):
        _wd = vlib.workdir(PROP.lower() + "r")
        try:
            return pc.replay(vlib.Report(PROP, "quick", seed, "model_checking"), _c, _wd, PROG_OWNS)
        finally:
            vlib.cleanup(_wd)
    return xc.std_replay(PROP, path, seed, OWNS)
