"""C10 - memory areas never overlap; allocation and resizing respect existing areas.
MC: MC_Memory (C10_NoOverlap invariant, AllocLaw on every edge, flat shadow memory as ground truth).
Bind: every allocation-related edge of the depth-2 model replayed on the real Axecutor + seeded random histories of
mem_init_area/zero/anywhere, init_stack, mem_resize_section, mem_prot (new area before / inside / enclosing / abutting
old ones, zero length, results of 'anywhere' reused through references); validated by Trace_Memory."""
import json
import random

import c08
import memcommon as mc
import vlib

PROP = "C10"
BASE = 0x1000
ALLOC_OPS = ("mem_init_area", "mem_init_zero", "mem_init_anywhere", "mem_resize_section", "mem_prot")


def alloc_scenarios(rng, n, length):
    scs = []
    for k in range(n):
        b = mc.Builder(f"alloc{k}")
        known = []        # (start expression, length) of areas we believe exist; start may be {"ref": idx}
        for _ in range(length):
            t = rng.random()
            ln = rng.choice([0, 1, 2, 3, 4, 8, 16, 17, 32])
            if t < 0.30 or not known:
                # explicit start: relative to an existing area (before / inside / enclosing / abutting) or fresh
                if known and rng.random() < 0.75:
                    s, l0 = rng.choice(known)
                    if isinstance(s, int):
                        start = max(0, s + rng.choice([-ln, -ln + 1, -1, 0, 1, l0 - 1, l0, l0 + 1, -2 * ln - 1]))
                    else:
                        start = dict(s)
                        d = rng.choice([-ln, -1, 0, 1, l0 - 1, l0, l0 + 1])
                        start["plus" if d >= 0 else "minus"] = abs(d)
                else:
                    start = BASE + rng.randrange(0, 96)
                if rng.random() < 0.5:
                    b.api(op="mem_init_zero", start=start, len=ln)
                else:
                    b.api(op="mem_init_area", start=start, data=[rng.randrange(1, 256) for _ in range(ln)])
                known.append((start, ln))
            elif t < 0.45:
                if rng.random() < 0.5:
                    idx = b.api(op="mem_init_zero_anywhere", len=ln)
                else:
                    idx = b.api(op="mem_init_anywhere", data=[rng.randrange(1, 256) for _ in range(ln)])
                known.append(({"ref": idx}, ln))
            elif t < 0.52:
                idx = b.api(op="init_stack", len=rng.choice([16, 24, 32, 64]))
                known.append(({"ref": idx}, 16))
            elif t < 0.80:
                s, l0 = rng.choice(known)
                b.api(op="mem_resize_section", start=s if rng.random() < 0.9 else BASE + rng.randrange(64),
                      new=rng.choice([0, 1, l0, l0 + 1, max(0, l0 - 1), 2 * l0 + 3, l0 + 16, 40]))
            elif t < 0.90:
                s, l0 = rng.choice(known)
                b.api(op="mem_prot", start=s, prot=rng.randrange(0, 9))
            else:
                s, l0 = rng.choice(known)
                if isinstance(s, int):
                    b.api(op="mem_write_bytes", addr=s, data=[rng.randrange(1, 256) for _ in range(max(1, min(l0, 4)))])
                else:
                    b.api(op="mem_write_bytes", addr=s, data=[7] * max(1, min(l0, 4)))
        scs.append(b.scenario())
    return scs


def grow_then_create_scenarios(rng, n):
    """an area is grown (mem_resize_section) and a new area is then requested inside the extent it grew into - the highest area
    included: the request must be refused whatever bookkeeping the allocator keeps about "the highest address so far" """
    scs = []
    for k in range(n):
        b = mc.Builder(f"gtc{k}")
        # below the code area, or above everything that exists (the constructor's code area included)
        lo = (BASE if rng.random() < 0.4 else 0x200000) + rng.choice([0, 16, 64])
        l0 = rng.choice([4, 8, 16])
        if rng.random() < 0.3:
            b.api(op="mem_init_zero", start=lo + 0x100, len=8)              # something higher exists / does not exist
        b.api(op="mem_init_area", start=lo, data=[rng.randrange(1, 256) for _ in range(l0)])
        grown = l0 + rng.choice([4, 8, 24])
        b.api(op="mem_resize_section", start=lo, new=grown)
        st = lo + rng.choice([l0, l0 + 1, grown - 1, l0 + 2])
        ln = rng.choice([1, 4, 8, 32])
        if rng.random() < 0.5:
            b.api(op="mem_init_zero", start=st, len=ln)
        else:
            b.api(op="mem_init_area", start=st, data=[rng.randrange(1, 256) for _ in range(ln)])
        b.api(op="mem_write_bytes", addr=lo + l0, data=[0x77, 0x78])
        b.api(op="mem_read_bytes", addr=lo, len=grown)
        b.api(op="mem_init_zero", start=lo + grown, len=4)                 # directly behind the grown area: free
        scs.append(b.scenario())
    return scs


def run(tier, seed):
    rep = vlib.Report(PROP, tier, seed, "model_checking")
    rng = random.Random(seed)
    wd = vlib.workdir("c10")
    try:
        res = c08.mc_phase(wd, tier)
        # unbounded addresses and lengths: NoOverlap is an inductive invariant of the allocation rules (Apalache, SMT)
        if vlib.apalache("AllocInd", "Init", "IndInv", 0, wd, cinit="ConstInit", tag="ind0") != "NoError" or \
                vlib.apalache("AllocInd", "IndInit", "IndInv", 1, wd, cinit="ConstInit", tag="ind1") != "NoError":
            raise vlib.ToolError("AllocInd: NoOverlap is not inductive for the specification's allocation rules (specification defect)")
        # non-vacuity: a resize rule that ignores the other areas is refuted
        if vlib.apalache("AllocInd", "IndInit", "IndInv", 1, wd, cinit="ConstInit", tag="indx",
                         mutate=("             /\\ ~Collides(areas[i].start, n, i)", "             /\\ TRUE")) != "Error":
            raise vlib.ToolError("AllocInd: the broken resize rule is not refuted (inductive check vacuous?)")
        rep.cov["inductive_invariant"] = {"tool": "apalache-mc 0.58", "module": "AllocInd.tla", "invariant": "Len(areas) <= 5 /\\ Bounded /\\ NoOverlap",
                                          "obligations": ["Init => IndInv (length 0)", "IndInv /\\ Next => IndInv' (length 1, IndInit = Gen(5))"],
                                          "non_vacuity": "resize rule without the collision test: counterexample found",
                                          "scope": "all integer addresses and lengths (unbounded), at most 5 areas"}
        edges = [e for e in c08.mbt_edges(wd) if e["hist"][-1]["op"] in ALLOC_OPS]
        sc1 = c08.edge_scenarios(edges)
        n1, s1, _ = mc.validate(sc1, wd, "edges", rep, 8)
        q = tier == "quick"
        sc2 = alloc_scenarios(rng, 400 if q else 30000, 10 if q else 16) + grow_then_create_scenarios(rng, 60 if q else 3000)
        n2, s2, _ = mc.validate(sc2, wd, "alloc", rep, 8 if q else 14)
        kinds = {(a["op"], a.get("len", len(a.get("data", []) if isinstance(a.get("data"), list) else [])) == 0,
                  isinstance(a.get("start"), dict)) for s in sc1 + sc2 for a in s["actions"]}
        rep.cov.update({
            "states": res["distinct"], "transitions": res["states"],
            "traces_validated_against_impl": s1 + s2, "events_validated": n1 + n2, "model_edges_replayed": len(edges),
            "evaluations": n1 + n2, "distinct_nontrivial": len(kinds),
            "rule": "case = one allocation-related API call; distinct = (operation, zero-length?, start derived from an 'anywhere' result?); "
                    "edges = every transition of MC_Memory (depth 2) ending in an allocation operation; random = seeded histories with "
                    "starts placed before/inside/enclosing/abutting existing areas",
            "samples": [sc1[len(sc1) // 2], sc2[0]],
        })
        rep.assumptions += ["TLC evaluates the specification correctly", "areas below 2^29 so that the model address mapping is exact",
                            "a hang of an allocation call is detected by the scenario watchdog (worker/hang)"]
        return rep.finish()
    finally:
        vlib.cleanup(wd)


def replay(path, seed):
    rep = vlib.Report(PROP, "quick", seed, "model_checking")
    case = json.load(open(path))["case"]
    wd = vlib.workdir("c10r")
    try:
        mc.validate([case["scenario"]], wd, "replay", rep, 1)
        rep.cov.update({"states": 1, "transitions": 1, "traces_validated_against_impl": 1, "samples": [case["scenario"]]})
        return rep.finish()
    finally:
        vlib.cleanup(wd)
