#!/usr/bin/env python3
"""Runs every seeded change under /verif/seeded/<name>/ against the check(s) of its property (and any extra checks
listed in meta.json 'also'), recording in meta.json which checks detect it.  For development: applies the patch to
/repo, runs the check, and ALWAYS restores /repo (git reset --hard) afterwards.  Never commits anything to /repo.
usage: selftest/run_seeded.py [name ...] [--tier quick|thorough]"""
import json
import os
import re
import subprocess
import sys

VERIF = os.path.dirname(os.path.dirname(os.path.abspath(__file__)))
SEEDED = os.path.join(VERIF, "seeded")


def sh(cmd, **kw):
    return subprocess.run(cmd, shell=True, stdout=subprocess.PIPE, stderr=subprocess.STDOUT, text=True, **kw)


def main():
    args = [a for a in sys.argv[1:] if not a.startswith("--")]
    tier = "thorough" if "--tier" in sys.argv and sys.argv[sys.argv.index("--tier") + 1] == "thorough" else "quick"
    names = args or sorted(os.listdir(SEEDED))
    if sh("git -C /repo diff --quiet && git -C /repo diff --cached --quiet").returncode != 0:
        print("/repo is dirty; refusing")
        return 2
    summary = []
    for name in names:
        d = os.path.join(SEEDED, name)
        mp = os.path.join(d, "meta.json")
        if not os.path.isdir(d):
            continue
        meta = json.load(open(mp)) if os.path.exists(mp) else {"name": name, "property": name.split("-")[0]}
        patch = os.path.join(d, "patch.rebased.diff") if os.path.exists(os.path.join(d, "patch.rebased.diff")) else os.path.join(d, "patch.diff")
        checks = [meta["property"]] + [c for c in meta.get("also", []) if c != meta["property"]]
        try:
            r = sh(f"git -C /repo apply {patch} || git -C /repo apply -3 {patch}")
            if sh("git -C /repo diff --quiet HEAD").returncode == 0:
                print(f"{name}: PATCH DOES NOT APPLY ({r.stdout.strip()[-200:]})")
                summary.append((name, "patch-does-not-apply"))
                continue
            det = meta.setdefault("detected_by", {})
            for c in checks:
                p = sh(f"cd {VERIF} && bin/check {c} --tier {tier}")
                keys = sorted(set(re.findall(r"violation key: (.*)", p.stdout)))
                det[c] = {"tier": tier, "exit": p.returncode, "violation_lines": p.stdout.count("\nVIOLATION "), "keys": keys[:6]}
                print(f"{name}: {c} exit={p.returncode} keys={keys[:3]}")
                summary.append((name, f"{c}:{'DETECTED' if p.returncode == 1 else 'missed' if p.returncode == 0 else 'tool-error'}"))
            meta["patch_used"] = os.path.basename(patch)
            json.dump(meta, open(mp, "w"), indent=1)
        finally:
            sh("git -C /repo reset -q --hard")
    print("\n".join(f"{a}: {b}" for a, b in summary))
    return 0


if __name__ == "__main__":
    sys.exit(main())
