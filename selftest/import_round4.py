#!/usr/bin/env python3
"""imports round-2 seeded changes from /tmp/mut-out4/<prop>/{a,b} into /verif/seeded/<prop>-{c,d}"""
import json, os, shutil, sys
also = {}
for p in sys.argv[1:]:
    for x, y in (("a", "g"), ("b", "h")):
        src = f"/tmp/mut-out4/{p}/{x}"
        if not os.path.exists(src + "/patch.diff"):
            continue
        name = f"{p}-{y}"
        d = f"/verif/seeded/{name}"
        os.makedirs(d, exist_ok=True)
        for f in ("patch.diff", "demo.diff", "notes.md"):
            if os.path.exists(f"{src}/{f}"):
                shutil.copy(f"{src}/{f}", f"{d}/{f}")
        mp = d + "/meta.json"
        meta = json.load(open(mp)) if os.path.exists(mp) else {}
        meta.update({"name": name, "property": p, "round": 4,
                     "needs": "see notes.md (written by the independent sub-agent that produced the change)",
                     "origin": "fresh sub-agent (round 4) given only the property text, the one-line titles of the earlier changes to avoid, and a scratch worktree of /repo (nothing from /verif)"})
        if name in also:
            meta["also"] = also[name]
        json.dump(meta, open(mp, "w"), indent=1)
        print("imported", name)
