#!/bin/bash
# usage: selftest/confirm_mutant.sh <name e.g. C07-a> <dir with patch.diff demo.diff notes.md> <property>
# Confirms in a scratch worktree (outside /repo and /verif) that: demo passes on the clean tree, demo fails with the
# patch, the full existing suite passes with the patch.  On success archives to /verif/seeded/<name>/.
set -u
name=$1; src=$2; prop=$3; base=${4:-HEAD}
wt=/tmp/confirm-wt-$name
out=/verif/seeded/$name
rm -rf "$wt"; git -C /repo worktree prune
git -C /repo worktree add -q --detach "$wt" "$base" || exit 2
cp /repo/Cargo.lock "$wt"/ 2>/dev/null
export CARGO_TARGET_DIR=/tmp/confirm-target     # shared between confirmations, removed by the caller at the end
cd "$wt" || exit 2
res() { echo "$1"; }
ap() { git apply "$1" 2>/dev/null || git apply -3 "$1" 2>/dev/null; }
ap "$src/demo.diff" || { echo "$name: demo.diff does not apply"; git -C /repo worktree remove --force "$wt"; exit 3; }
clean_demo=$(timeout 600 cargo nextest run --offline --no-fail-fast seeded 2>&1 | grep -E "Summary|tests run" | tail -1)
PATCH="$src/patch.diff"; [ -f "$src/patch.rebased.diff" ] && PATCH="$src/patch.rebased.diff"
ap "$PATCH" || { echo "$name: patch does not apply"; git -C /repo worktree remove --force "$wt"; exit 3; }
patched_demo=$(timeout 600 cargo nextest run --offline --no-fail-fast seeded 2>&1 | grep -E "Summary|tests run" | tail -1)
# full suite with the patch, demo removed
git checkout -q -- . ; git clean -fdq src
ap "$PATCH"
suite=$(timeout 400 cargo nextest run --offline --no-fail-fast --test-threads 8 2>&1 | grep -E "Summary|tests run" | tail -1)
# the repository's suite occasionally hangs (a test blocked on a pipe write at 0% CPU, also seen on the unchanged tree): retry once
if ! echo "$suite" | grep -q "2300 passed"; then suite=$(timeout 400 cargo nextest run --offline --no-fail-fast --test-threads 8 2>&1 | grep -E "Summary|tests run" | tail -1); fi
if ! echo "$suite" | grep -q "2300 passed"; then suite=$(timeout 600 cargo nextest run --offline --no-fail-fast --test-threads 4 2>&1 | grep -E "Summary|tests run" | tail -1); fi
cd /; git -C /repo worktree remove --force "$wt"
ok=1
echo "$clean_demo" | grep -q "0 failed\|passed, 0 skipped" || { echo "$clean_demo" | grep -q "failed" && ok=0; }
echo "$patched_demo" | grep -q "failed" || ok=0
echo "$suite" | grep -q "2300 passed" || ok=0
echo "$suite" | grep -q "failed" && ok=0
echo "$name: clean_demo=[$clean_demo] patched_demo=[$patched_demo] suite_with_patch=[$suite] confirmed=$ok"
if [ $ok = 1 ]; then
  mkdir -p "$out"; [ "$src" = "$out" ] || { cp "$src/patch.diff" "$src/demo.diff" "$out"/; cp "$src/notes.md" "$out"/notes.md 2>/dev/null; }
  python3 - "$name" "$prop" "$clean_demo" "$patched_demo" "$suite" <<'PY'
import json,sys,os
name,prop,cd,pd,su=sys.argv[1:6]
meta={"name":name,"property":prop,"needs":"see notes.md (written by the independent sub-agent that produced the change)",
      "confirmed":{"demo_on_clean_tree":cd,"demo_with_patch":pd,"existing_suite_with_patch":su,
                   "how":"selftest/confirm_mutant.sh in a scratch worktree of /repo HEAD under /tmp (removed afterwards)"}}
p=f"/verif/seeded/{name}/meta.json"
old=json.load(open(p)) if os.path.exists(p) else {}
old.update(meta); json.dump(old,open(p,"w"),indent=1)
PY
fi
