#!/bin/bash
# usage: selftest/try_mutant.sh <Cxx> <patch.diff> [tier]   -- applies the patch to /repo, runs the check, reverts.
# (for development only; never leaves /repo modified)
set -u
prop=$1; patch=$2; tier=${3:-quick}
cd /repo || exit 2
if ! git diff --quiet; then echo "repo dirty"; exit 2; fi
if ! git apply --check "$patch" 2>/dev/null; then
  if ! git apply -3 --check "$patch" 2>/dev/null; then echo "PATCH-DOES-NOT-APPLY $patch"; exit 3; fi
fi
git apply "$patch" 2>/dev/null || git apply -3 "$patch"
cd /verif
bin/check "$prop" --tier "$tier" > /tmp/try_mutant.$$.log 2>&1
rc=$?
grep -E "violation key|KNOWN-FINDING|TOOL-ERROR|^OK" /tmp/try_mutant.$$.log | head -12
echo "exit=$rc ($(grep -c '^VIOLATION' /tmp/try_mutant.$$.log) VIOLATION lines)"
rm -f /tmp/try_mutant.$$.log
git -C /repo checkout -- . ; git -C /repo reset -q ; git -C /repo checkout -- . 
exit $rc
