//! C19 driver: arbitrary code bytes (shape classes of spec/Encoding.tla with free bits filled at random, uniform
//! random strings, mutated valid encodings) x random register / flag / memory states; one step() each under
//! catch_unwind; a watchdog thread turns a hang into exit status 3 (the supervisor records it and restarts).

use crate::insn::{self, Gen, Layout, Outcome, AREAS, INSN_AT, RW1};
use rand::Rng;
use serde_json::{json, Value};
use std::io::Write;

fn hot_opcodes(forms: &std::collections::HashMap<String, Vec<String>>, g: &mut Gen) -> (Vec<u8>, Vec<u8>, Vec<insn::Case>) {
    // opcode bytes of implemented forms (1-byte map and 0F map), learnt by encoding each form once
    let mut one = Vec::new();
    let mut two = Vec::new();
    let mut valid = Vec::new();
    for fam in ["data", "flow", "stack"] {
        for c in insn::gen_family(g, fam, 2, forms) {
            let b = &c.bytes;
            let mut i = 0;
            while i < b.len() && (matches!(b[i], 0x66 | 0x67 | 0xf2 | 0xf3 | 0x2e | 0x36 | 0x3e | 0x26 | 0x64 | 0x65 | 0xf0) || (0x40..=0x4f).contains(&b[i])) {
                i += 1;
            }
            if i < b.len() {
                if b[i] == 0x0f && i + 1 < b.len() {
                    two.push(b[i + 1]);
                } else {
                    one.push(b[i]);
                }
            }
            valid.push(c);
        }
    }
    one.sort();
    one.dedup();
    two.sort();
    two.dedup();
    (one, two, valid)
}

fn class_bytes(cls: &Value, g: &mut Gen, hot1: &[u8], hot2: &[u8]) -> Vec<u8> {
    let mut b: Vec<u8> = Vec::new();
    if let Some(p) = cls["pfx"].as_array() {
        for x in p {
            b.push(x.as_u64().unwrap_or(0x90) as u8);
        }
    }
    match cls["rex"].as_str().unwrap_or("none") {
        "w" => b.push(0x48),
        "rxb" => b.push(0x40 | g.rng.gen_range(1..8)),
        "wrxb" => b.push(0x48 | g.rng.gen_range(0..8)),
        "40" => b.push(0x40),
        _ => {}
    }
    let map = cls["map"].as_str().unwrap_or("1");
    let hot = cls["op"].as_str() == Some("hot");
    match map {
        "0f" => {
            b.push(0x0f);
            b.push(if hot && !hot2.is_empty() { hot2[g.rng.gen_range(0..hot2.len())] } else { g.rng.gen() });
        }
        "0f38" => {
            b.extend_from_slice(&[0x0f, 0x38, g.rng.gen()]);
        }
        "0f3a" => {
            b.extend_from_slice(&[0x0f, 0x3a, g.rng.gen()]);
        }
        _ => b.push(if hot && !hot1.is_empty() { hot1[g.rng.gen_range(0..hot1.len())] } else { g.rng.gen() }),
    }
    let md = cls["mod"].as_str().unwrap_or("none");
    let rm = cls["rm"].as_str().unwrap_or("plain");
    if md != "none" {
        let reg: u8 = g.rng.gen_range(0..8);
        let (m, r): (u8, u8) = match (md, rm) {
            ("reg", _) => (3, g.rng.gen_range(0..8)),
            ("mem0", "sib") | ("mem0", "sibnobase") => (0, 4),
            ("mem0", "disp32") => (0, 5),
            ("mem0", _) => (0, [0u8, 1, 2, 3, 6, 7][g.rng.gen_range(0..6)]),
            ("mem1", "sib") => (1, 4),
            ("mem1", _) => (1, [0u8, 1, 2, 3, 5, 6, 7][g.rng.gen_range(0..7)]),
            ("mem2", "sib") => (2, 4),
            (_, _) => (2, [0u8, 1, 2, 3, 5, 6, 7][g.rng.gen_range(0..7)]),
        };
        b.push((m << 6) | (reg << 3) | r);
        if r == 4 && m != 3 {
            let base: u8 = if rm == "sibnobase" { 5 } else { [0u8, 1, 2, 3, 4, 6, 7][g.rng.gen_range(0..7)] };
            b.push((g.rng.gen_range(0..4u8) << 6) | (g.rng.gen_range(0..8u8) << 3) | base);
        }
        let dl = match (m, r, rm) {
            (1, _, _) => 1,
            (2, _, _) => 4,
            (0, 5, _) => 4,
            (0, 4, "sibnobase") => 4,
            _ => 0,
        };
        for _ in 0..dl {
            b.push([0u8, 1, 0x7f, 0x80, 0xff, g.rng.gen()][g.rng.gen_range(0..6)]);
        }
    }
    for _ in 0..cls["imm"].as_u64().unwrap_or(0) {
        b.push([0u8, 1, 0x7f, 0x80, 0xff, g.rng.gen()][g.rng.gen_range(0..6)]);
    }
    b.truncate(18);
    b
}

pub fn run(classes_path: &str, seed: u64, per_class: usize, uniform: usize, mutated: usize, forms_path: &str, out: &str, skip: usize) -> std::io::Result<()> {
    let forms = insn::load_forms(forms_path);
    let mut g = Gen::new(seed);
    let (hot1, hot2, valid) = hot_opcodes(&forms, &mut g);
    let classes: Vec<Value> = std::fs::read_to_string(classes_path)?.lines().filter_map(|l| serde_json::from_str(l).ok()).collect();
    // build the list of (class name, bytes)
    let mut cases: Vec<(String, Vec<u8>)> = Vec::new();
    for (k, c) in classes.iter().enumerate() {
        for _ in 0..per_class {
            cases.push((format!("class{k}"), class_bytes(c, &mut g, &hot1, &hot2)));
        }
    }
    for _ in 0..uniform {
        let n = g.rng.gen_range(1..=15);
        cases.push(("uniform".into(), (0..n).map(|_| g.rng.gen()).collect()));
    }
    for k in 0..mutated {
        if valid.is_empty() {
            break;
        }
        let mut b = valid[k % valid.len()].bytes.clone();
        match g.rng.gen_range(0..6) {
            0 => b.insert(0, [0x66u8, 0x67, 0xf2, 0xf3, 0x2e, 0x36, 0x3e, 0x26, 0x64, 0x65, 0xf0][g.rng.gen_range(0..11)]),
            1 => {
                let i = g.rng.gen_range(0..b.len());
                b[i] ^= 1 << g.rng.gen_range(0..8);
            }
            2 => {
                let n = g.rng.gen_range(1..=b.len());
                b.truncate(n);
            }
            3 => {
                b.insert(0, 0x40 | g.rng.gen_range(0..16u8));
            }
            4 => {
                let i = g.rng.gen_range(0..b.len());
                b[i] = g.rng.gen();
            }
            _ => {
                b.insert(0, 0x67);
                b.insert(0, 0x66);
            }
        }
        cases.push(("mutated".into(), b));
    }
    // deterministic: every valid control-transfer and stack encoding with ALL registers (and so every indirect target, stack
    // pointer and operand address) at each value next to 0 and next to 2^64 - a step that goes nowhere sensible is still a step
    const EXTREMES: [u64; 12] = [0, 1, 2, 3, 7, 8, 15, 16, u64::MAX, u64::MAX - 1, u64::MAX - 7, u64::MAX - 15];
    for v in valid.iter() {
        let m = v.instr.mnemonic();
        if matches!(m, iced_x86::Mnemonic::Jmp | iced_x86::Mnemonic::Call | iced_x86::Mnemonic::Ret | iced_x86::Mnemonic::Push | iced_x86::Mnemonic::Pop) {
            for k in 0..EXTREMES.len() {
                cases.push((format!("xt{k}"), v.bytes.clone()));
            }
        }
    }
    let mut f = std::io::BufWriter::new(std::fs::OpenOptions::new().create(true).append(true).open(out)?);
    let lay = Layout;
    for (id, (cls, bytes)) in cases.iter().enumerate() {
        // state is drawn for every case so that --skip keeps the stream aligned
        let mut pre = {
            let mut c0 = g.make(iced_x86::Code::Nopd, "bytes", false, insn::MemShape::Base, insn::Place::Rw, false, iced_x86::Register::None, 0)
                .expect("nop case");
            c0.pre.ov.clear();
            c0
        };
        if g.rng.gen_bool(0.6) {
            // registers pointing into mapped memory so that memory operands are often accessible
            for r in pre.pre.regs.iter_mut() {
                *r = RW1 + 0x400 + 16 * g.rng.gen_range(0..64u64);
            }
            pre.pre.regs[2] = g.rng.gen_range(0..70); // RCX: shift counts / loop counters
        }
        else if g.rng.gen_bool(0.5) {
            // registers pointing at the last bytes of a mapped area (accesses that overrun it by 1..16 bytes)
            for r in pre.pre.regs.iter_mut() {
                *r = RW1 + 0x1000 - g.rng.gen_range(0..18u64);
            }
            pre.pre.regs[2] = g.rng.gen_range(0..70);
        }
        else if g.rng.gen_bool(0.5) {
            // tiny and huge register values: indirect branch targets / addresses next to 0 and next to 2^64
            let c = [0u64, 1, 2, 3, 4, 7, 8, 15, 16, u64::MAX, u64::MAX - 1, u64::MAX - 7, u64::MAX - 15];
            for r in pre.pre.regs.iter_mut() {
                *r = c[g.rng.gen_range(0..c.len())];
            }
        }
        if g.rng.gen_bool(0.2) {
            pre.pre.regs[6] = u64::MAX - g.rng.gen_range(0..16); // RSP at the very top of the address space
        }
        if let Some(k) = cls.strip_prefix("xt").and_then(|x| x.parse::<usize>().ok()) {
            for r in pre.pre.regs.iter_mut() {
                *r = EXTREMES[k % EXTREMES.len()];
            }
        }
        // the instruction pointer is part of the state too: the last bytes of the address space, page 0, the last bytes of the
        // code area (a fetch gets fewer than 15 bytes), non-executable and unmapped memory
        if g.rng.gen_bool(0.06) {
            let c = [u64::MAX, u64::MAX - 1, u64::MAX - 5, u64::MAX - 13, u64::MAX - 14, u64::MAX - 15, u64::MAX - 16, 0, 1, insn::CODE + 0xfff, insn::CODE + 0x1000 - 3,
                     insn::CODE + 0x1000, RW1, insn::RO + 8, 0x7fff_ffff_ffff_fff8, 0x8000_0000_0000_0000, RW1 + 0x1000 - 2];
            pre.rip_override = Some(c[g.rng.gen_range(0..c.len())]);
        }
        if id < skip {
            continue;
        }
        pre.pre.ov.push((INSN_AT, bytes.clone()));
        pre.bytes = bytes.clone();
        crate::interp::PROGRESS.fetch_add(1, std::sync::atomic::Ordering::Relaxed);
        writeln!(f, "{}", json!({"c": id, "begin": true}))?;
        f.flush()?;
        let p = insn::run_ax(&pre, &lay);
        let (out_s, msg) = match &p.out {
            Outcome::Ok => ("ok", String::new()),
            Outcome::Err(k) => ("err", k.clone()),
            Outcome::Crash(m) => ("crash", m.clone()),
            Outcome::Fault(s) => ("fault", s.clone()),
            Outcome::Hang => ("hang", String::new()),
        };
        writeln!(f, "{}", json!({"c": id, "cls": cls, "bytes": bytes, "out": out_s, "msg": msg, "maxalloc": 0, "alloclimit": 1,
                                   "regs": pre.pre.regs.to_vec(), "fl": pre.pre.fl}))?;
    }
    let _ = AREAS.len();
    f.flush()
}
