//! Native executor: runs the same instruction bytes on this machine's CPU from the same register / flag /
//! XMM / memory state (the hardware stream that binds the TLA+ step relation to a real x86-64 CPU).
//!
//! Guest areas are mmap()ed MAP_FIXED at the guest addresses; a generated trampoline loads the context,
//! jumps to the test instruction, and landing pads / a fall-through stub record where control went before
//! the epilogue stores the context back.  Faults are observed as the signal that kills the forked worker.

use crate::insn::{Case, Layout, Outcome, Post, AREAS};
use std::io::{Read, Write};

pub const CTX: u64 = 0x60_0000;
pub const TRAMP: u64 = 0x60_1000;
const IN_GPR: u64 = CTX;
const IN_RFLAGS: u64 = CTX + 0x80;
const HOST_RSP: u64 = CTX + 0x88;
pub const HIT: u64 = CTX + 0x90;
pub const EPI_SLOT: u64 = CTX + 0x98;
const TEST_SLOT: u64 = CTX + 0xa0;
const IN_XMM: u64 = CTX + 0x100;
const OUT_GPR: u64 = CTX + 0x200;
const OUT_RFLAGS: u64 = CTX + 0x280;
const OUT_XMM: u64 = CTX + 0x300;

// register numbers in encoding order: rax rcx rdx rbx rsp rbp rsi rdi r8..r15
fn abs_modrm(reg: u8) -> [u8; 2] {
    [0x04 | ((reg & 7) << 3), 0x25]
}

fn emit_mov_load(code: &mut Vec<u8>, reg: u8, addr: u64) {
    code.push(if reg >= 8 { 0x4c } else { 0x48 });
    code.push(0x8b);
    code.extend_from_slice(&abs_modrm(reg));
    code.extend_from_slice(&(addr as u32).to_le_bytes());
}
fn emit_mov_store(code: &mut Vec<u8>, reg: u8, addr: u64) {
    code.push(if reg >= 8 { 0x4c } else { 0x48 });
    code.push(0x89);
    code.extend_from_slice(&abs_modrm(reg));
    code.extend_from_slice(&(addr as u32).to_le_bytes());
}
fn emit_movups(code: &mut Vec<u8>, store: bool, xmm: u8, addr: u64) {
    if xmm >= 8 {
        code.push(0x44);
    }
    code.push(0x0f);
    code.push(if store { 0x11 } else { 0x10 });
    code.extend_from_slice(&abs_modrm(xmm));
    code.extend_from_slice(&(addr as u32).to_le_bytes());
}

/// the 15-byte stub placed at a landing pad / behind the test instruction: `mov byte [HIT], k; jmp [EPI_SLOT]`
pub fn pad_stub(k: u8) -> Vec<u8> {
    let mut v = vec![0xc6, 0x04, 0x25];
    v.extend_from_slice(&(HIT as u32).to_le_bytes());
    v.push(k);
    v.extend_from_slice(&[0xff, 0x24, 0x25]);
    v.extend_from_slice(&(EPI_SLOT as u32).to_le_bytes());
    v
}

fn build_trampoline() -> (Vec<u8>, usize) {
    let mut c = Vec::new();
    // prologue
    c.extend_from_slice(&[0x53, 0x55, 0x41, 0x54, 0x41, 0x55, 0x41, 0x56, 0x41, 0x57]);
    emit_mov_store(&mut c, 4, HOST_RSP);
    for x in 0..16u8 {
        emit_movups(&mut c, false, x, IN_XMM + 16 * x as u64);
    }
    c.extend_from_slice(&[0xff, 0x34, 0x25]);
    c.extend_from_slice(&(IN_RFLAGS as u32).to_le_bytes());
    c.push(0x9d);
    for r in 0..16u8 {
        if r != 4 {
            emit_mov_load(&mut c, r, IN_GPR + 8 * r as u64);
        }
    }
    emit_mov_load(&mut c, 4, IN_GPR + 8 * 4);
    c.extend_from_slice(&[0xff, 0x24, 0x25]);
    c.extend_from_slice(&(TEST_SLOT as u32).to_le_bytes());
    // epilogue
    let epi = c.len();
    for r in 0..16u8 {
        emit_mov_store(&mut c, r, OUT_GPR + 8 * r as u64);
    }
    emit_mov_load(&mut c, 4, HOST_RSP);
    c.push(0x9c);
    c.extend_from_slice(&[0x8f, 0x04, 0x25]);
    c.extend_from_slice(&(OUT_RFLAGS as u32).to_le_bytes());
    for x in 0..16u8 {
        emit_movups(&mut c, true, x, OUT_XMM + 16 * x as u64);
    }
    c.push(0xfc);
    c.extend_from_slice(&[0x41, 0x5f, 0x41, 0x5e, 0x41, 0x5d, 0x41, 0x5c, 0x5d, 0x5b, 0xc3]);
    (c, epi)
}

unsafe fn map_fixed(addr: u64, len: usize, prot: i32) -> bool {
    let p = libc::mmap(
        addr as *mut libc::c_void,
        len,
        prot,
        libc::MAP_PRIVATE | libc::MAP_ANONYMOUS | libc::MAP_FIXED_NOREPLACE,
        -1,
        0,
    );
    p as u64 == addr
}

/// Map guest areas + context + trampoline.  Returns false if this environment does not allow it.
pub fn setup() -> bool {
    unsafe {
        for a in AREAS.iter() {
            // natively the code page also has to be writable (it is rewritten per case); R-only data is mapped R/W
            // and re-protected per case
            if !map_fixed(a.start, a.len as usize, libc::PROT_READ | libc::PROT_WRITE | libc::PROT_EXEC) {
                return false;
            }
        }
        if !map_fixed(CTX, 0x1000, libc::PROT_READ | libc::PROT_WRITE) {
            return false;
        }
        if !map_fixed(TRAMP, 0x1000, libc::PROT_READ | libc::PROT_WRITE | libc::PROT_EXEC) {
            return false;
        }
        let (code, epi) = build_trampoline();
        std::ptr::copy_nonoverlapping(code.as_ptr(), TRAMP as *mut u8, code.len());
        *(EPI_SLOT as *mut u64) = TRAMP + epi as u64;
    }
    true
}

const ENC_ORDER: [usize; 16] = [0, 2, 3, 1, 6, 7, 4, 5, 8, 9, 10, 11, 12, 13, 14, 15];
// Case.regs order is RAX RBX RCX RDX RSI RDI RSP RBP R8..R15; encoding order is rax rcx rdx rbx rsp rbp rsi rdi
fn to_enc(regs: &[u64; 16]) -> [u64; 16] {
    // enc index -> case index
    let map = [0usize, 2, 3, 1, 6, 7, 4, 5, 8, 9, 10, 11, 12, 13, 14, 15];
    let mut out = [0u64; 16];
    for (e, c) in map.iter().enumerate() {
        out[e] = regs[*c];
    }
    out
}
fn from_enc(enc: &[u64; 16]) -> [u64; 16] {
    let map = [0usize, 2, 3, 1, 6, 7, 4, 5, 8, 9, 10, 11, 12, 13, 14, 15];
    let mut out = [0u64; 16];
    for (e, c) in map.iter().enumerate() {
        out[*c] = enc[e];
    }
    let _ = ENC_ORDER;
    out
}

/// Run one case in THIS process (must be a forked worker).  Returns the post state.
pub unsafe fn run_case(c: &Case, lay: &Layout) -> Post {
    // memory image
    for a in AREAS.iter() {
        libc::mprotect(a.start as *mut libc::c_void, a.len as usize, libc::PROT_READ | libc::PROT_WRITE | libc::PROT_EXEC);
        let img = lay.image(a, c);
        std::ptr::copy_nonoverlapping(img.as_ptr(), a.start as *mut u8, img.len());
    }
    for a in AREAS.iter() {
        let mut prot = 0;
        if a.prot & 1 != 0 {
            prot |= libc::PROT_READ;
        }
        if a.prot & 2 != 0 {
            prot |= libc::PROT_WRITE;
        }
        if a.prot & 4 != 0 {
            prot |= libc::PROT_EXEC | libc::PROT_READ;
        }
        libc::mprotect(a.start as *mut libc::c_void, a.len as usize, prot);
    }
    let enc = to_enc(&c.pre.regs);
    std::ptr::copy_nonoverlapping(enc.as_ptr(), IN_GPR as *mut u64, 16);
    *(IN_RFLAGS as *mut u64) = 0x202 | c.pre.fl;
    std::ptr::copy_nonoverlapping(c.pre.xmm.as_ptr() as *const u8, IN_XMM as *mut u8, 256);
    *(HIT as *mut u64) = 0;
    *(TEST_SLOT as *mut u64) = c.pre.rip;
    if c.uses_gs {
        libc::syscall(libc::SYS_arch_prctl, 0x1001, c.pre.gs);
    }
    libc::alarm(3);
    let f: extern "C" fn() = std::mem::transmute(TRAMP);
    f();
    libc::alarm(0);
    let mut enc_out = [0u64; 16];
    std::ptr::copy_nonoverlapping(OUT_GPR as *const u64, enc_out.as_mut_ptr(), 16);
    let regs = from_enc(&enc_out);
    let mut xmm = [0u128; 16];
    std::ptr::copy_nonoverlapping(OUT_XMM as *const u8, xmm.as_mut_ptr() as *mut u8, 256);
    let fl = *(OUT_RFLAGS as *const u64);
    let hit = *(HIT as *const u64) as u8;
    let rip = lay.pad_addr(c, hit);
    // memory diff
    let mut mem = Vec::new();
    for a in AREAS.iter() {
        libc::mprotect(a.start as *mut libc::c_void, a.len as usize, libc::PROT_READ | libc::PROT_WRITE | libc::PROT_EXEC);
        let img = lay.image(a, c);
        let now = std::slice::from_raw_parts(a.start as *const u8, a.len as usize);
        crate::insn::diff_runs(a.start, &img, now, &mut mem);
    }
    Post { out: Outcome::Ok, regs, xmm, fl: fl & 0xcd5, rip, mem, msg: String::new() }
}

/// Run all cases natively under fork supervision; results[i] is None only if native execution is unavailable.
pub fn run_all(cases: &[Case], lay: &Layout) -> Vec<Option<Post>> {
    let mut results: Vec<Option<Post>> = vec![None; cases.len()];
    let mut start = 0usize;
    while start < cases.len() {
        let mut fds = [0i32; 2];
        unsafe {
            if libc::pipe(fds.as_mut_ptr()) != 0 {
                return results;
            }
        }
        let pid = unsafe { libc::fork() };
        if pid < 0 {
            return results;
        }
        if pid == 0 {
            // worker
            unsafe {
                libc::close(fds[0]);
            }
            let mut w = unsafe { <std::fs::File as std::os::unix::io::FromRawFd>::from_raw_fd(fds[1]) };
            if !setup() {
                let _ = w.write_all(b"NOSETUP\n");
                unsafe { libc::_exit(0) };
            }
            for (i, c) in cases.iter().enumerate().skip(start) {
                if !c.native_ok {
                    let _ = w.write_all(format!("{} SKIP\n", i).as_bytes());
                    continue;
                }
                let p = unsafe { run_case(c, lay) };
                let line = format!("{} {}\n", i, crate::insn::post_to_wire(&p));
                if w.write_all(line.as_bytes()).is_err() {
                    break;
                }
            }
            let _ = w.flush();
            unsafe { libc::_exit(0) };
        }
        unsafe {
            libc::close(fds[1]);
        }
        let mut r = unsafe { <std::fs::File as std::os::unix::io::FromRawFd>::from_raw_fd(fds[0]) };
        let mut buf = String::new();
        let _ = r.read_to_string(&mut buf);
        let mut status = 0i32;
        unsafe {
            libc::waitpid(pid, &mut status, 0);
        }
        let mut last_done = start as isize - 1;
        for line in buf.lines() {
            if line == "NOSETUP" {
                return results;
            }
            let mut it = line.splitn(2, ' ');
            let idx: usize = match it.next().and_then(|s| s.parse().ok()) {
                Some(i) => i,
                None => continue,
            };
            let rest = it.next().unwrap_or("");
            if rest != "SKIP" {
                if let Some(p) = crate::insn::post_from_wire(rest) {
                    results[idx] = Some(p);
                }
            }
            last_done = idx as isize;
        }
        if libc::WIFSIGNALED(status) {
            let sig = libc::WTERMSIG(status);
            let idx = (last_done + 1) as usize;
            if idx < cases.len() {
                let out = match sig {
                    libc::SIGFPE => Outcome::Fault("SIGFPE".into()),
                    libc::SIGSEGV => Outcome::Fault("SIGSEGV".into()),
                    libc::SIGBUS => Outcome::Fault("SIGBUS".into()),
                    libc::SIGILL => Outcome::Fault("SIGILL".into()),
                    libc::SIGTRAP => Outcome::Fault("SIGTRAP".into()),
                    libc::SIGALRM => Outcome::Hang,
                    _ => Outcome::Fault(format!("SIG{sig}")),
                };
                results[idx] = Some(Post { out, regs: [0; 16], xmm: [0; 16], fl: 0, rip: 0, mem: Vec::new(), msg: String::new() });
            }
            start = idx + 1;
        } else {
            start = (last_done + 1) as usize;
            if start < cases.len() && buf.is_empty() {
                // worker exited without producing anything: give up on native execution
                return results;
            }
        }
    }
    results
}
