//! Scenario interpreter: drives the real `Axecutor` through its public API, one JSON action at a time,
//! and records one NDJSON event per action at its linearization point (the return of the public call,
//! also on the error path), with arguments, result and the projected abstract state.
//!
//! Input  (one scenario per line): {"id": "...", "obs": ["regs","areas",...], "actions": [ {"op": ...}, ... ]}
//! Output (one event per line):    {"ev": <op>, "sc": <id>, "i": <index>, ...args, "res": {...}, "obs": {...}}
//! preceded, per scenario, by      {"ev": "begin", "sc": <id>}

use ax_x86::auto::generated::SupportedMnemonic;
use ax_x86::axecutor::Axecutor;
use ax_x86::helpers::syscalls::Syscall;
use ax_x86::state::hooks::HookResult;
use ax_x86::state::registers::SupportedRegister;
use serde_json::{json, Map, Value};
use std::io::{BufRead, Write};
use std::panic::{catch_unwind, AssertUnwindSafe};
use std::sync::{Arc, Mutex};

pub const GPRS: [&str; 17] = [
    "RAX", "RBX", "RCX", "RDX", "RSI", "RDI", "RSP", "RBP", "R8", "R9", "R10", "R11", "R12", "R13",
    "R14", "R15", "RIP",
];

pub fn reg_by_name(name: &str) -> Option<SupportedRegister> {
    serde_json::from_value::<SupportedRegister>(Value::String(name.to_string())).ok()
}

fn mnem_by_name(name: &str) -> Option<SupportedMnemonic> {
    serde_json::from_value::<SupportedMnemonic>(Value::String(name.to_string())).ok()
}

pub struct Ctx {
    pub ax: Option<Axecutor>,
    pub results: Vec<Value>,
    pub hooklog: Arc<Mutex<Vec<Value>>>,
}

fn panic_msg(e: Box<dyn std::any::Any + Send>) -> String {
    if let Some(s) = e.downcast_ref::<&str>() {
        s.to_string()
    } else if let Some(s) = e.downcast_ref::<String>() {
        s.clone()
    } else {
        "<non-string panic>".to_string()
    }
}

fn u64_arg(ctx_results: &[Value], v: &Value) -> Result<u64, String> {
    match v {
        Value::Number(n) => n
            .as_u64()
            .or_else(|| n.as_i64().map(|x| x as u64))
            .ok_or_else(|| format!("bad number {n}")),
        Value::String(s) => {
            let s = s.trim();
            if let Some(h) = s.strip_prefix("0x") {
                u64::from_str_radix(h, 16).map_err(|e| e.to_string())
            } else {
                s.parse::<u64>().map_err(|e| e.to_string())
            }
        }
        Value::Object(o) => {
            // {"ref": k, "plus": d, "minus": d}: the numeric value returned by action k
            let k = o.get("ref").and_then(|x| x.as_u64()).ok_or("bad ref")? as usize;
            let base = ctx_results
                .get(k)
                .and_then(|r| r.get("v"))
                .and_then(|x| x.as_u64())
                .ok_or_else(|| format!("ref {k} has no numeric value"))?;
            let plus = o.get("plus").map(|x| u64_arg(ctx_results, x)).transpose()?.unwrap_or(0);
            let minus = o.get("minus").map(|x| u64_arg(ctx_results, x)).transpose()?.unwrap_or(0);
            let and = o.get("and").map(|x| u64_arg(ctx_results, x)).transpose()?.unwrap_or(u64::MAX);
            Ok((base & and).wrapping_add(plus).wrapping_sub(minus))
        }
        _ => Err(format!("bad u64 argument {v}")),
    }
}

fn bytes_arg(v: &Value) -> Result<Vec<u8>, String> {
    match v {
        Value::Array(a) => a
            .iter()
            .map(|x| x.as_u64().map(|b| b as u8).ok_or_else(|| "bad byte".to_string()))
            .collect(),
        Value::Object(o) => {
            // {"zeros": n} | {"fill": b, "n": n}
            if let Some(n) = o.get("zeros").and_then(|x| x.as_u64()) {
                Ok(vec![0u8; n as usize])
            } else if let (Some(b), Some(n)) =
                (o.get("fill").and_then(|x| x.as_u64()), o.get("n").and_then(|x| x.as_u64()))
            {
                Ok(vec![b as u8; n as usize])
            } else {
                Err("bad bytes object".into())
            }
        }
        Value::String(s) => Ok(s.as_bytes().to_vec()),
        _ => Err("bad bytes".into()),
    }
}

fn ok_v(v: Value) -> Value {
    json!({"k": "ok", "v": v})
}
fn ok_unit() -> Value {
    json!({"k": "ok"})
}
fn err_v<E: std::fmt::Display>(e: E) -> Value {
    json!({"k": "err", "msg": e.to_string()})
}
fn harness_err(s: String) -> Value {
    json!({"k": "harness", "msg": s})
}

fn res_unit<E: std::fmt::Display>(r: Result<(), E>) -> Value {
    match r {
        Ok(()) => ok_unit(),
        Err(e) => err_v(e),
    }
}
fn res_u64<E: std::fmt::Display>(r: Result<u64, E>) -> Value {
    match r {
        Ok(v) => ok_v(json!(v)),
        Err(e) => err_v(e),
    }
}

macro_rules! get_u64 {
    ($results:expr, $a:expr, $k:expr) => {
        match $a.get($k) {
            Some(v) => match u64_arg($results, v) {
                Ok(x) => x,
                // an argument that refers to the result of an earlier call which FAILED: the action cannot be formed - that is data
                // about the code under test (the failed call is judged where it happened), not a harness error
                Err(e) if e.contains("has no numeric value") => return json!({"k": "skip", "msg": format!("arg {}: {}", $k, e)}),
                Err(e) => return harness_err(format!("arg {}: {}", $k, e)),
            },
            None => return harness_err(format!("missing arg {}", $k)),
        }
    };
}

fn make_hook(
    log: Arc<Mutex<Vec<Value>>>,
    spec: Value,
) -> &'static ax_x86::state::hooks::RustCallbackFunction {
    let f = move |ax: &mut Axecutor,
                  m: SupportedMnemonic|
          -> Result<HookResult, Box<dyn std::error::Error>> {
        let rip = ax.reg_read_64(SupportedRegister::RIP).unwrap_or(u64::MAX);
        let mut entry = Map::new();
        entry.insert("hid".into(), spec.get("hid").cloned().unwrap_or(json!(-1)));
        entry.insert("when".into(), spec.get("when").cloned().unwrap_or(json!("?")));
        entry.insert("mnem".into(), json!(m.name()));
        entry.insert("rip".into(), json!(rip));
        entry.insert("count".into(), json!(ax.verif_executed_instructions_count()));
        entry.insert("finished".into(), json!(ax.verif_finished()));
        entry.insert("running".into(), json!(ax.verif_hooks_running()));
        // observations requested by the hook spec (registers it wants to see)
        if let Some(Value::Array(see)) = spec.get("see") {
            let mut seen = Map::new();
            for r in see {
                if let Some(name) = r.as_str() {
                    if let Some(reg) = reg_by_name(name) {
                        seen.insert(name.to_string(), json!(ax.reg_read_64(reg).unwrap_or(u64::MAX)));
                    }
                }
            }
            entry.insert("see".into(), Value::Object(seen));
        }
        let mut inner = Vec::new();
        if let Some(Value::Array(does)) = spec.get("does") {
            let empty: Vec<Value> = Vec::new();
            for d in does {
                let op = d.get("op").and_then(|x| x.as_str()).unwrap_or("");
                let r = if op == "try_register" {
                    // registration from inside a hook must be refused
                    let dummy: &'static ax_x86::state::hooks::RustCallbackFunction =
                        &|_: &mut Axecutor, _: SupportedMnemonic| Ok(HookResult::Unhandled);
                    let mn = d
                        .get("mnem")
                        .and_then(|x| x.as_str())
                        .and_then(mnem_by_name)
                        .unwrap_or(SupportedMnemonic::Nop);
                    let before = d.get("when").and_then(|x| x.as_str()) != Some("after");
                    if before {
                        res_unit(ax.hook_before_mnemonic_native(mn, dummy))
                    } else {
                        res_unit(ax.hook_after_mnemonic_native(mn, dummy))
                    }
                } else if op == "try_handle_syscalls" {
                    res_unit(ax.handle_syscalls(vec![Syscall::Exit]))
                } else {
                    apply_api(ax, &empty, &log, d)
                };
                inner.push(json!({"op": op, "res": r}));
            }
        }
        entry.insert("inner".into(), Value::Array(inner));
        log.lock().unwrap().push(Value::Object(entry));
        match spec.get("ret").and_then(|x| x.as_str()).unwrap_or("unhandled") {
            "handled" => Ok(HookResult::Handled),
            "error" => Err(Box::<dyn std::error::Error>::from(format!(
                "hook {} failed",
                spec.get("hid").cloned().unwrap_or(json!(-1))
            ))),
            _ => Ok(HookResult::Unhandled),
        }
    };
    Box::leak(Box::new(f))
}

/// Apply one API action to an existing machine. Never panics by itself; panics of ax propagate
/// (the caller wraps this in catch_unwind).
pub fn apply_api(
    ax: &mut Axecutor,
    results: &[Value],
    hooklog: &Arc<Mutex<Vec<Value>>>,
    a: &Value,
) -> Value {
    let op = a.get("op").and_then(|x| x.as_str()).unwrap_or("");
    match op {
        "reg_write" => {
            let w = get_u64!(results, a, "w");
            let val = get_u64!(results, a, "val");
            let reg = match a.get("reg").and_then(|x| x.as_str()).and_then(reg_by_name) {
                Some(r) => r,
                None => return harness_err("bad reg".into()),
            };
            res_unit(match w {
                8 => ax.reg_write_8(reg, val),
                16 => ax.reg_write_16(reg, val),
                32 => ax.reg_write_32(reg, val),
                64 => ax.reg_write_64(reg, val),
                _ => return harness_err("bad w".into()),
            })
        }
        "reg_read" => {
            let w = get_u64!(results, a, "w");
            let reg = match a.get("reg").and_then(|x| x.as_str()).and_then(reg_by_name) {
                Some(r) => r,
                None => return harness_err("bad reg".into()),
            };
            res_u64(match w {
                8 => ax.reg_read_8(reg),
                16 => ax.reg_read_16(reg),
                32 => ax.reg_read_32(reg),
                64 => ax.reg_read_64(reg),
                _ => return harness_err("bad w".into()),
            })
        }
        "reg_write_128" => {
            let reg = match a.get("reg").and_then(|x| x.as_str()).and_then(reg_by_name) {
                Some(r) => r,
                None => return harness_err("bad reg".into()),
            };
            let b = match a.get("val").map(bytes_arg) {
                Some(Ok(b)) if b.len() == 16 => b,
                _ => return harness_err("bad 128-bit value".into()),
            };
            let mut arr = [0u8; 16];
            arr.copy_from_slice(&b);
            res_unit(ax.reg_write_128(reg, u128::from_le_bytes(arr)))
        }
        "reg_read_128" => {
            let reg = match a.get("reg").and_then(|x| x.as_str()).and_then(reg_by_name) {
                Some(r) => r,
                None => return harness_err("bad reg".into()),
            };
            match ax.reg_read_128(reg) {
                Ok(v) => ok_v(json!(v.to_le_bytes().to_vec())),
                Err(e) => err_v(e),
            }
        }
        "write_fs" => {
            let v = get_u64!(results, a, "val");
            ax.write_fs(v);
            ok_unit()
        }
        "write_gs" => {
            let v = get_u64!(results, a, "val");
            ax.write_gs(v);
            ok_unit()
        }
        "read_fs" => ok_v(json!(ax.read_fs())),
        "read_gs" => ok_v(json!(ax.read_gs())),
        "set_rflags" => {
            let v = get_u64!(results, a, "val");
            ax.verif_set_rflags(v);
            ok_unit()
        }
        "mem_read_bytes" => {
            let addr = get_u64!(results, a, "addr");
            let len = get_u64!(results, a, "len");
            match ax.mem_read_bytes(addr, len) {
                Ok(v) => ok_v(json!(v)),
                Err(e) => err_v(e),
            }
        }
        "mem_write_bytes" => {
            let addr = get_u64!(results, a, "addr");
            let data = match a.get("data").map(bytes_arg) {
                Some(Ok(b)) => b,
                _ => return harness_err("bad data".into()),
            };
            res_unit(ax.mem_write_bytes(addr, &data))
        }
        "mem_read" => {
            let addr = get_u64!(results, a, "addr");
            let w = get_u64!(results, a, "w");
            match w {
                8 => res_u64(ax.mem_read_8(addr)),
                16 => res_u64(ax.mem_read_16(addr)),
                32 => res_u64(ax.mem_read_32(addr)),
                64 => res_u64(ax.mem_read_64(addr)),
                128 => match ax.mem_read_128(addr) {
                    Ok(v) => ok_v(json!(v.to_le_bytes().to_vec())),
                    Err(e) => err_v(e),
                },
                _ => harness_err("bad w".into()),
            }
        }
        "mem_write" => {
            let addr = get_u64!(results, a, "addr");
            let w = get_u64!(results, a, "w");
            if w == 128 {
                let b = match a.get("val").map(bytes_arg) {
                    Some(Ok(b)) if b.len() == 16 => b,
                    _ => return harness_err("bad 128-bit value".into()),
                };
                let mut arr = [0u8; 16];
                arr.copy_from_slice(&b);
                return res_unit(ax.mem_write_128(addr, u128::from_le_bytes(arr)));
            }
            let val = get_u64!(results, a, "val");
            res_unit(match w {
                8 => ax.mem_write_8(addr, val),
                16 => ax.mem_write_16(addr, val),
                32 => ax.mem_write_32(addr, val),
                64 => ax.mem_write_64(addr, val),
                _ => return harness_err("bad w".into()),
            })
        }
        "mem_init_area" => {
            let start = get_u64!(results, a, "start");
            let data = match a.get("data").map(bytes_arg) {
                Some(Ok(b)) => b,
                _ => return harness_err("bad data".into()),
            };
            match a.get("name").and_then(|x| x.as_str()) {
                Some(n) => res_unit(ax.mem_init_area_named(start, data, Some(n.to_string()))),
                None => res_unit(ax.mem_init_area(start, data)),
            }
        }
        "mem_init_zero" => {
            let start = get_u64!(results, a, "start");
            let len = get_u64!(results, a, "len");
            match a.get("name").and_then(|x| x.as_str()) {
                Some(n) => res_unit(ax.mem_init_zero_named(start, len, n.to_string())),
                None => res_unit(ax.mem_init_zero(start, len)),
            }
        }
        "mem_init_zero_anywhere" => {
            let len = get_u64!(results, a, "len");
            res_u64(ax.mem_init_zero_anywhere(len))
        }
        "mem_init_anywhere" => {
            let data = match a.get("data").map(bytes_arg) {
                Some(Ok(b)) => b,
                _ => return harness_err("bad data".into()),
            };
            let name = a.get("name").and_then(|x| x.as_str()).map(|s| s.to_string());
            res_u64(ax.mem_init_anywhere(data, name))
        }
        "init_stack" => {
            let len = get_u64!(results, a, "len");
            res_u64(ax.init_stack(len))
        }
        "init_stack_program_start" => {
            let len = get_u64!(results, a, "len");
            let strs = |k: &str| -> Vec<String> {
                a.get(k)
                    .and_then(|x| x.as_array())
                    .map(|v| v.iter().filter_map(|s| s.as_str().map(|s| s.to_string())).collect())
                    .unwrap_or_default()
            };
            res_u64(ax.init_stack_program_start(len, strs("argv"), strs("envp")))
        }
        "mem_resize_section" => {
            let start = get_u64!(results, a, "start");
            let n = get_u64!(results, a, "new");
            res_unit(ax.mem_resize_section(start, n))
        }
        "mem_prot" => {
            let start = get_u64!(results, a, "start");
            let p = get_u64!(results, a, "prot");
            res_unit(ax.mem_prot(start, p as u32))
        }
        "set_max_instructions" => {
            let n = get_u64!(results, a, "n");
            ax.set_max_instructions(n);
            ok_unit()
        }
        "step" => match async_std::task::block_on(ax.step()) {
            Ok(b) => ok_v(json!(b)),
            Err(e) => err_v(e),
        },
        "execute" => res_unit(async_std::task::block_on(ax.execute())),
        "stop" => {
            ax.stop();
            ok_unit()
        }
        "handle_syscalls" => {
            let mut list = Vec::new();
            if let Some(Value::Array(v)) = a.get("list") {
                for s in v {
                    match serde_json::from_value::<Syscall>(s.clone()) {
                        Ok(x) => list.push(x),
                        Err(_) => return harness_err(format!("bad syscall {s}")),
                    }
                }
            }
            res_unit(ax.handle_syscalls(list))
        }
        "hook" => {
            let mn = match a.get("mnem").and_then(|x| x.as_str()).and_then(mnem_by_name) {
                Some(m) => m,
                None => return harness_err("bad mnem".into()),
            };
            let cb = make_hook(hooklog.clone(), a.clone());
            if a.get("when").and_then(|x| x.as_str()) == Some("after") {
                res_unit(ax.hook_after_mnemonic_native(mn, cb))
            } else {
                res_unit(ax.hook_before_mnemonic_native(mn, cb))
            }
        }
        "trace" => match ax.trace() {
            Ok(s) => ok_v(json!(s)),
            Err(e) => err_v(e),
        },
        "call_stack" => match ax.call_stack() {
            Ok(s) => ok_v(json!(s)),
            Err(e) => err_v(e),
        },
        "to_string" => ok_v(json!(ax.to_string())),
        "resolve_symbol" => {
            let addr = get_u64!(results, a, "addr");
            match ax.resolve_symbol(addr) {
                Some(s) => ok_v(json!(s)),
                None => json!({"k": "ok", "none": true}),
            }
        }
        "nop" => ok_unit(),
        _ => harness_err(format!("unknown op {op}")),
    }
}

pub fn observe(ax: &Axecutor, obs: &[String], a: &Value) -> Value {
    let mut o = Map::new();
    for what in obs {
        match what.as_str() {
            "regs" => {
                let mut m = Map::new();
                for name in GPRS.iter() {
                    let r = reg_by_name(name).unwrap();
                    m.insert(name.to_string(), json!(ax.reg_read_64(r).unwrap_or(u64::MAX)));
                }
                o.insert("regs".into(), Value::Object(m));
            }
            "fl" => {
                o.insert("fl".into(), json!(ax.verif_rflags()));
            }
            "seg" => {
                o.insert("fs".into(), json!(ax.read_fs()));
                o.insert("gs".into(), json!(ax.read_gs()));
            }
            "xmm" => {
                let mut m = Map::new();
                for i in 0..16 {
                    let name = format!("XMM{i}");
                    let r = reg_by_name(&name).unwrap();
                    m.insert(name, json!(ax.reg_read_128(r).unwrap_or(0).to_le_bytes().to_vec()));
                }
                o.insert("xmm".into(), Value::Object(m));
            }
            "areas" | "bytes" => {
                let with_bytes = what == "bytes";
                let maxb = a.get("maxbytes").and_then(|x| x.as_u64()).unwrap_or(512) as usize;
                let meta = ax.verif_area_meta();
                let mut v = Vec::new();
                for (idx, (start, len, prot, dlen, name)) in meta.iter().enumerate() {
                    let mut m = Map::new();
                    m.insert("start".into(), json!(start));
                    m.insert("len".into(), json!(len));
                    m.insert("prot".into(), json!(prot));
                    m.insert("dlen".into(), json!(dlen));
                    m.insert("name".into(), json!(name.clone().unwrap_or_default()));
                    if with_bytes && *dlen <= maxb {
                        m.insert("data".into(), json!(ax.verif_area_data(idx).to_vec()));
                    }
                    v.push(Value::Object(m));
                }
                o.insert("areas".into(), Value::Array(v));
            }
            "exec" => {
                o.insert("finished".into(), json!(ax.verif_finished()));
                o.insert("count".into(), json!(ax.verif_executed_instructions_count()));
                o.insert(
                    "max".into(),
                    match ax.verif_max_instructions() {
                        Some(n) => json!(n),
                        None => json!(-1),
                    },
                );
                o.insert("code_end".into(), json!(ax.verif_code_end_addr()));
                o.insert("stack_top".into(), json!(ax.verif_stack_top()));
                o.insert(
                    "rip".into(),
                    json!(ax.reg_read_64(SupportedRegister::RIP).unwrap_or(u64::MAX)),
                );
                o.insert("running".into(), json!(ax.verif_hooks_running()));
            }
            "trace" => {
                let t: Vec<Value> = ax
                    .verif_trace()
                    .iter()
                    .map(|(ip, tg, v, lvl, cnt)| {
                        json!({"ip": ip, "target": tg, "var": v, "level": lvl, "count": cnt})
                    })
                    .collect();
                o.insert("trace".into(), Value::Array(t));
                o.insert("call_stack".into(), json!(ax.verif_call_stack()));
            }
            "sys" => {
                let (b0, bl) = ax.verif_brk();
                o.insert("brk_start".into(), json!(b0));
                o.insert("brk_len".into(), json!(bl));
                let (ends, contents) = ax.verif_pipes();
                let mut e: Vec<(u64, u64)> = ends;
                e.sort();
                let mut c: Vec<(u64, Vec<u8>)> = contents;
                c.sort();
                o.insert("pipe_ends".into(), json!(e));
                o.insert("pipe_bufs".into(), json!(c));
            }
            _ => {}
        }
    }
    Value::Object(o)
}

fn run_action(ctx: &mut Ctx, a: &Value) -> Value {
    let op = a.get("op").and_then(|x| x.as_str()).unwrap_or("");
    match op {
        "new" => {
            let code = match a.get("code").map(bytes_arg) {
                Some(Ok(b)) => b,
                _ => return harness_err("bad code".into()),
            };
            let start = get_u64!(&ctx.results, a, "start");
            let rip = get_u64!(&ctx.results, a, "rip");
            match catch_unwind(AssertUnwindSafe(|| Axecutor::new(&code, start, rip))) {
                Ok(Ok(ax)) => {
                    ctx.ax = Some(ax);
                    ok_unit()
                }
                Ok(Err(e)) => err_v(e),
                Err(p) => json!({"k": "crash", "msg": panic_msg(p)}),
            }
        }
        "from_binary" => {
            let data = if let Some(p) = a.get("path").and_then(|x| x.as_str()) {
                match std::fs::read(p) {
                    Ok(d) => d,
                    Err(e) => return harness_err(format!("read {p}: {e}")),
                }
            } else {
                match a.get("data").map(bytes_arg) {
                    Some(Ok(b)) => b,
                    _ => return harness_err("bad data".into()),
                }
            };
            match catch_unwind(AssertUnwindSafe(|| Axecutor::from_binary(&data))) {
                Ok(Ok(ax)) => {
                    ctx.ax = Some(ax);
                    ok_unit()
                }
                Ok(Err(e)) => err_v(e),
                Err(p) => json!({"k": "crash", "msg": panic_msg(p)}),
            }
        }
        _ => {
            let results = std::mem::take(&mut ctx.results);
            let hooklog = ctx.hooklog.clone();
            let r = match ctx.ax.as_mut() {
                None => harness_err("no machine".into()),
                Some(ax) => {
                    match catch_unwind(AssertUnwindSafe(|| apply_api(ax, &results, &hooklog, a))) {
                        Ok(v) => v,
                        Err(p) => json!({"k": "crash", "msg": panic_msg(p)}),
                    }
                }
            };
            ctx.results = results;
            r
        }
    }
}

pub fn run_scenario<W: Write>(sc: &Value, out: &mut W) -> std::io::Result<()> {
    let id = sc.get("id").cloned().unwrap_or(json!("?"));
    let obs: Vec<String> = sc
        .get("obs")
        .and_then(|x| x.as_array())
        .map(|v| v.iter().filter_map(|s| s.as_str().map(|s| s.to_string())).collect())
        .unwrap_or_default();
    let empty = Vec::new();
    let actions = sc.get("actions").and_then(|x| x.as_array()).unwrap_or(&empty);
    writeln!(out, "{}", json!({"ev": "begin", "sc": id, "n": actions.len()}))?;
    out.flush()?;
    let mut ctx = Ctx { ax: None, results: Vec::new(), hooklog: Arc::new(Mutex::new(Vec::new())) };
    for (i, a) in actions.iter().enumerate() {
        let res = run_action(&mut ctx, a);
        let mut ev = match a {
            Value::Object(m) => m.clone(),
            _ => Map::new(),
        };
        let op = ev.remove("op").unwrap_or(json!("?"));
        ev.insert("ev".into(), op);
        ev.insert("sc".into(), id.clone());
        ev.insert("i".into(), json!(i));
        ev.insert("res".into(), res.clone());
        let hl: Vec<Value> = std::mem::take(&mut *ctx.hooklog.lock().unwrap());
        ev.insert("hooklog".into(), Value::Array(hl));
        let crashed = res.get("k").and_then(|x| x.as_str()) == Some("crash");
        if let Some(ax) = ctx.ax.as_ref() {
            // after a crash the object may be inconsistent; still try to look at it
            let o = catch_unwind(AssertUnwindSafe(|| observe(ax, &obs, a)))
                .unwrap_or_else(|_| json!({"unobservable": true}));
            ev.insert("obs".into(), o);
        } else {
            ev.insert("obs".into(), json!({}));
        }
        ctx.results.push(res);
        PROGRESS.fetch_add(1, std::sync::atomic::Ordering::Relaxed);
        writeln!(out, "{}", Value::Object(ev))?;
        if crashed {
            break;
        }
    }
    writeln!(out, "{}", json!({"ev": "end", "sc": id}))?;
    out.flush()
}

/// progress counter for the watchdog: bumped after every action
pub static PROGRESS: std::sync::atomic::AtomicU64 = std::sync::atomic::AtomicU64::new(0);

/// A call into ax that does not return within `secs` is a hang: the process exits with status 3 and the
/// supervisor (lib/vlib.py) records `hang` for the scenario in flight.
pub fn start_watchdog(secs: u64) {
    std::thread::spawn(move || {
        let mut last = PROGRESS.load(std::sync::atomic::Ordering::Relaxed);
        let mut idle = 0u64;
        loop {
            std::thread::sleep(std::time::Duration::from_millis(250));
            let now = PROGRESS.load(std::sync::atomic::Ordering::Relaxed);
            if now == last {
                idle += 250;
                if idle >= secs * 1000 {
                    std::process::exit(3);
                }
            } else {
                idle = 0;
                last = now;
            }
        }
    });
}

pub fn run_file(input: &str, output: &str, skip: usize) -> std::io::Result<()> {
    let f = std::io::BufReader::new(std::fs::File::open(input)?);
    let mut out = std::io::BufWriter::new(
        std::fs::OpenOptions::new().create(true).append(true).open(output)?,
    );
    for (n, line) in f.lines().enumerate() {
        let line = line?;
        if n < skip || line.trim().is_empty() {
            continue;
        }
        let sc: Value = match serde_json::from_str(&line) {
            Ok(v) => v,
            Err(e) => {
                eprintln!("axv: bad scenario line {n}: {e}");
                std::process::exit(2);
            }
        };
        run_scenario(&sc, &mut out)?;
    }
    out.flush()
}
