//! Single-instruction conformance cases: generated from iced's opcode tables (every implemented form x operand
//! shapes x boundary-biased values x incoming flags), executed on the real Axecutor and natively on the CPU,
//! and written as NDJSON events (values as little-endian byte arrays) for TLC trace validation against
//! spec/X86.tla.

use ax_x86::axecutor::Axecutor;
use iced_x86::{Code, Encoder, Instruction, MemoryOperand, Mnemonic, OpCodeOperandKind as K, OpKind, Register};
use rand::rngs::StdRng;
use rand::{Rng, SeedableRng};
use serde_json::{json, Map, Value};
use std::io::Write;
use std::panic::{catch_unwind, AssertUnwindSafe};

pub struct Area {
    #[allow(dead_code)]
    pub name: &'static str,
    pub start: u64,
    pub len: u64,
    pub prot: u32,
}
pub const CODE: u64 = 0x10_0000;
pub const RW1: u64 = 0x20_0000;
pub const RW2: u64 = 0x20_2000;
pub const RO: u64 = 0x30_0000;
pub const STK: u64 = 0x40_0000;
pub const GSB: u64 = 0x50_0000;
pub const AREAS: [Area; 6] = [
    Area { name: "CODE", start: CODE, len: 0x1000, prot: 5 },
    Area { name: "RW1", start: RW1, len: 0x1000, prot: 3 },
    Area { name: "RW2", start: RW2, len: 0x1000, prot: 3 },
    Area { name: "RO", start: RO, len: 0x1000, prot: 1 },
    Area { name: "STK", start: STK, len: 0x1000, prot: 3 },
    Area { name: "GSB", start: GSB, len: 0x1000, prot: 3 },
];
pub const INSN_AT: u64 = CODE + 0x800;
pub const PADS: [u64; 4] = [CODE + 0x7c0, CODE + 0x840, CODE + 0x200, CODE + 0xc00];
pub const FLMASK: u64 = 0xcd5;

pub fn pattern(a: u64) -> u8 {
    ((a * 7 + (a / 256) * 13 + 5) % 256) as u8
}

#[derive(Clone)]
pub struct Pre {
    pub regs: [u64; 16],
    pub xmm: [u128; 16],
    pub fl: u64,
    pub fs: u64,
    pub gs: u64,
    pub rip: u64,
    pub ov: Vec<(u64, Vec<u8>)>,
}

#[derive(Clone, Debug, PartialEq)]
pub enum Outcome {
    Ok,
    Err(String),
    Crash(String),
    Fault(String),
    Hang,
}

#[derive(Clone)]
pub struct Post {
    pub out: Outcome,
    pub regs: [u64; 16],
    pub xmm: [u128; 16],
    pub fl: u64,
    pub rip: u64,
    pub mem: Vec<(u64, Vec<u8>)>,
    pub msg: String,
}

#[derive(Clone)]
pub struct Case {
    pub id: usize,
    pub family: String,
    pub shape: String,
    pub instr: Instruction,
    pub bytes: Vec<u8>,
    pub pre: Pre,
    pub native_ok: bool,
    pub uses_gs: bool,
    pub touches_xmm: bool,
    pub mem_target: u64,
    pub mem_w: u64,
    pub rip_override: Option<u64>, // RIP written through the register API after construction (C19: any RIP is a state)
    pub drain: u8,       // unmatched RETs executed before the judged step (empties ax's diagnostic record of calls)
    pub code_shift: u64, // the code area (and RIP, direct branch targets) lies this far above the standard layout (ax only)
}

pub struct Layout;
impl Layout {
    pub fn image(&self, a: &Area, c: &Case) -> Vec<u8> {
        let mut img: Vec<u8> = (0..a.len).map(|o| pattern(a.start + o)).collect();
        for (addr, bytes) in c.pre.ov.iter() {
            for (i, b) in bytes.iter().enumerate() {
                let x = addr + i as u64;
                if x >= a.start && x < a.start + a.len {
                    img[(x - a.start) as usize] = *b;
                }
            }
        }
        img
    }
    pub fn pad_addr(&self, c: &Case, hit: u8) -> u64 {
        match hit {
            1 => c.pre.rip + c.bytes.len() as u64,
            2..=5 => PADS[(hit - 2) as usize],
            _ => 0,
        }
    }
}

pub fn diff_runs(base: u64, before: &[u8], after: &[u8], out: &mut Vec<(u64, Vec<u8>)>) {
    let n = before.len().min(after.len());
    let mut i = 0;
    while i < n {
        if before[i] != after[i] {
            let s = i;
            while i < n && before[i] != after[i] {
                i += 1;
            }
            out.push((base + s as u64, after[s..i].to_vec()));
        } else {
            i += 1;
        }
    }
    if after.len() != before.len() {
        out.push((base + n as u64, vec![0xEE]));
    }
}

// ---- wire format between native worker and parent -------------------------------------------------------------
pub fn post_to_wire(p: &Post) -> String {
    let v = json!({"regs": p.regs.to_vec(), "xmm": p.xmm.iter().map(|x| x.to_le_bytes().to_vec()).collect::<Vec<_>>(),
                   "fl": p.fl, "rip": p.rip, "mem": p.mem});
    v.to_string()
}
pub fn post_from_wire(s: &str) -> Option<Post> {
    let v: Value = serde_json::from_str(s).ok()?;
    let mut regs = [0u64; 16];
    for (i, x) in v["regs"].as_array()?.iter().enumerate() {
        regs[i] = x.as_u64()?;
    }
    let mut xmm = [0u128; 16];
    for (i, x) in v["xmm"].as_array()?.iter().enumerate() {
        let b: Vec<u8> = x.as_array()?.iter().map(|y| y.as_u64().unwrap_or(0) as u8).collect();
        let mut arr = [0u8; 16];
        arr.copy_from_slice(&b);
        xmm[i] = u128::from_le_bytes(arr);
    }
    let mem = v["mem"]
        .as_array()?
        .iter()
        .map(|m| {
            (m[0].as_u64().unwrap_or(0), m[1].as_array().map(|b| b.iter().map(|y| y.as_u64().unwrap_or(0) as u8).collect()).unwrap_or_default())
        })
        .collect();
    Some(Post { out: Outcome::Ok, regs, xmm, fl: v["fl"].as_u64()?, rip: v["rip"].as_u64()?, mem, msg: String::new() })
}

// ---- registers ----------------------------------------------------------------------------------------------------
pub const GPR64: [Register; 16] = [
    Register::RAX, Register::RBX, Register::RCX, Register::RDX, Register::RSI, Register::RDI, Register::RSP, Register::RBP,
    Register::R8, Register::R9, Register::R10, Register::R11, Register::R12, Register::R13, Register::R14, Register::R15,
];
fn gpr_index(full: Register) -> Option<usize> {
    GPR64.iter().position(|r| *r == full)
}
fn regs_of_width(w: u32) -> Vec<Register> {
    let all: Vec<Register> = Register::values().collect();
    all.into_iter()
        .filter(|r| match w {
            8 => r.is_gpr8(),
            16 => r.is_gpr16(),
            32 => r.is_gpr32(),
            64 => r.is_gpr64(),
            128 => r.is_xmm() && r.number() < 16,
            _ => false,
        })
        .collect()
}

fn biased_u64(rng: &mut StdRng) -> u64 {
    let t: f64 = rng.gen();
    if t < 0.2 {
        let c = [0u64, 1, 2, 0x7f, 0x80, 0xff, 0x100, 0x7fff, 0x8000, 0xffff, 0x10000, 0x7fff_ffff, 0x8000_0000, 0xffff_ffff,
                 0x1_0000_0000, 0x7fff_ffff_ffff_ffff, 0x8000_0000_0000_0000, u64::MAX, u64::MAX - 1, 0xffff_ffff_0000_0000];
        return c[rng.gen_range(0..c.len())];
    }
    if t < 0.4 {
        return rng.gen();
    }
    let mut v = 0u64;
    for i in 0..8 {
        let b: u8 = match rng.gen_range(0..8) {
            0 | 1 => 0,
            2 => 1,
            3 => 0x7f,
            4 => 0x80,
            5 => 0xff,
            _ => rng.gen(),
        };
        v |= (b as u64) << (8 * i);
    }
    v
}

// ---- form table -----------------------------------------------------------------------------------------------------
pub fn supported_mnemonic(m: Mnemonic) -> bool {
    use Mnemonic::*;
    matches!(
        m,
        Adc | Add | And | Call | Cdq | Cdqe | Cld | Cmovae | Cmove | Cmovne | Cmp | Cpuid | Cqo | Cwd | Dec | Div | Endbr64 | Idiv | Imul | Inc
            | Ja | Jae | Jb | Jbe | Je | Jecxz | Jg | Jge | Jl | Jle | Jmp | Jne | Jno | Jnp | Jns | Jo | Jp | Jrcxz | Js | Lea | Mov | Movd
            | Movsxd | Movups | Movzx | Mul | Neg | Nop | Not | Pop | Push | Ret | Setb | Sete | Setne | Shl | Shr | Sub | Test | Xor | Xorps
    )
}
pub fn class_of(m: Mnemonic) -> &'static str {
    use Mnemonic::*;
    match m {
        Call | Ret | Jmp | Ja | Jae | Jb | Jbe | Je | Jecxz | Jg | Jge | Jl | Jle | Jne | Jno | Jnp | Jns | Jo | Jp | Jrcxz | Js => "flow",
        Push | Pop => "stack",
        _ => "data",
    }
}

fn kind_ok(k: K) -> bool {
    matches!(
        k,
        K::r8_or_mem | K::r16_or_mem | K::r32_or_mem | K::r64_or_mem | K::xmm_or_mem | K::r8_reg | K::r16_reg | K::r32_reg | K::r64_reg
            | K::xmm_reg | K::xmm_rm | K::r8_opcode | K::r16_opcode | K::r32_opcode | K::r64_opcode | K::r16_rm | K::r32_rm | K::r64_rm
            | K::mem | K::mem_offs | K::imm8 | K::imm8_const_1 | K::imm8sex16 | K::imm8sex32 | K::imm8sex64 | K::imm16 | K::imm32
            | K::imm32sex64 | K::imm64 | K::al | K::cl | K::ax | K::dx | K::eax | K::rax | K::br64_1 | K::br64_4
    )
}

/// every iced Code of a supported mnemonic that is encodable in 64-bit mode with operand kinds we can construct
pub fn candidate_codes() -> Vec<Code> {
    let mut v = Vec::new();
    for code in Code::values() {
        let m = code.mnemonic();
        if !supported_mnemonic(m) {
            continue;
        }
        let oc = code.op_code();
        if !oc.mode64() || !oc.is_instruction() {
            continue;
        }
        if oc.encoding() != iced_x86::EncodingKind::Legacy {
            continue;
        }
        if (0..oc.op_count()).any(|i| !kind_ok(oc.op_kind(i))) {
            continue;
        }
        v.push(code);
    }
    v
}

#[derive(Clone, Copy, PartialEq, Debug)]
pub enum MemShape {
    Base,
    BaseDisp8,
    BaseDisp32,
    BaseIndex,
    BaseIndexDisp8,
    BaseIndexDisp32,
    IndexDisp32,
    Abs32,
    RipRel,
}
pub const MEM_SHAPES: [MemShape; 9] = [
    MemShape::Base, MemShape::BaseDisp8, MemShape::BaseDisp32, MemShape::BaseIndex, MemShape::BaseIndexDisp8, MemShape::BaseIndexDisp32,
    MemShape::IndexDisp32, MemShape::Abs32, MemShape::RipRel,
];

#[derive(Clone, Copy, PartialEq, Debug)]
pub enum Place {
    Rw,       // inside a read-write area, well away from its edges
    Ro,       // read-only area
    Hole,     // unmapped hole between RW1 and RW2
    Straddle, // crosses the end of RW1
    LastFit,  // ends exactly at the end of RW1
    Null,     // page 0
    Misalign, // inside RW1, address not 16-byte aligned (for alignment-checking 128-bit operands)
}

pub struct Gen {
    pub rng: StdRng,
    pub next_id: usize,
    last_divisor: Option<u64>,
    pub iter_hint: usize,
    pub stack_edge: Option<u64>, // next stack-like case: put RSP here (edges of the stack area, read-only / unmapped memory)
    pub next_drain: u8,
    pub next_shift: u64,
    pub next_imm: Option<i64>, // force the immediate of the next case (boundary sweeps)
}

struct MemPlan {
    op: MemoryOperand,
    base: Option<usize>,  // gpr index whose value must be fixed up
    index: Option<usize>,
    asz32: bool,
    seg: Register,
    shape: MemShape,
}

impl Gen {
    pub fn new(seed: u64) -> Self {
        Gen { rng: StdRng::seed_from_u64(seed), next_id: 0, last_divisor: None, iter_hint: usize::MAX, stack_edge: None, next_drain: 0, next_shift: 0, next_imm: None }
    }

    fn pick<T: Copy>(&mut self, v: &[T]) -> T {
        v[self.rng.gen_range(0..v.len())]
    }

    fn random_pre(&mut self) -> Pre {
        let mut regs = [0u64; 16];
        for r in regs.iter_mut() {
            *r = biased_u64(&mut self.rng);
        }
        let mut xmm = [0u128; 16];
        for x in xmm.iter_mut() {
            *x = ((biased_u64(&mut self.rng) as u128) << 64) | biased_u64(&mut self.rng) as u128;
        }
        let bits = [0x1u64, 0x4, 0x10, 0x40, 0x80, 0x800];
        let mut fl = 0;
        for b in bits.iter() {
            if self.rng.gen_bool(0.5) {
                fl |= b;
            }
        }
        if self.rng.gen_bool(0.1) {
            fl |= 0x400;
        }
        Pre { regs, xmm, fl, fs: 0, gs: 0, rip: INSN_AT, ov: Vec::new() }
    }

    fn target_for(&mut self, place: Place, n: u64) -> u64 {
        match place {
            Place::Rw => {
                let a = RW1 + 0x100 + self.rng.gen_range(0..0xc00);
                if n >= 16 {
                    a & !0xf
                } else {
                    a
                }
            }
            Place::Ro => (RO + 0x100 + self.rng.gen_range(0..0xc00)) & !0xf,
            Place::Hole => (RW1 + 0x1000 + self.rng.gen_range(0..0xf00)) & !0xf,
            Place::Straddle => RW1 + 0x1000 - n + self.rng.gen_range(1..n.max(2)),
            Place::LastFit => RW1 + 0x1000 - n,
            Place::Null => self.rng.gen_range(0..0x800) & !0xf,
            Place::Misalign => ((RW1 + 0x100 + self.rng.gen_range(0..0xc00)) & !0xf) + self.rng.gen_range(1..16),
        }
    }

    /// build a memory operand of the given shape whose effective address will be `target` once fix_regs ran
    fn mem_plan(&mut self, shape: MemShape, asz32: bool, seg: Register, forbid: &[usize]) -> MemPlan {
        let pool: Vec<usize> = (0..16).filter(|i| !forbid.contains(i)).collect();
        let b = self.pick(&pool);
        let mut ipool: Vec<usize> = pool.iter().cloned().filter(|i| *i != 6 && *i != b).collect(); // RSP cannot be an index
        if ipool.is_empty() {
            ipool.push(if b == 0 { 1 } else { 0 });
        }
        let x = self.pick(&ipool);
        let scale = self.pick(&[1u32, 2, 4, 8]);
        let r = |i: usize| -> Register {
            if asz32 {
                // 32-bit view of the same register
                regs_of_width(32).into_iter().find(|r| r.full_register() == GPR64[i]).unwrap()
            } else {
                GPR64[i]
            }
        };
        let d8 = self.pick(&[-128i64, -1, 1, 8, 0x7f, -16]);
        let d32 = self.pick(&[-0x8000_0000i64, -0x1000, 0x1000, 0x7fff_ffff, 0x1234, -0x100000, 0x80]);
        let (op, base, index) = match shape {
            MemShape::Base => (MemoryOperand::new(r(b), Register::None, 1, 0, 0, false, seg), Some(b), None),
            MemShape::BaseDisp8 => (MemoryOperand::new(r(b), Register::None, 1, d8, 1, false, seg), Some(b), None),
            MemShape::BaseDisp32 => (MemoryOperand::new(r(b), Register::None, 1, d32, 4, false, seg), Some(b), None),
            MemShape::BaseIndex => (MemoryOperand::new(r(b), r(x), scale, 0, 0, false, seg), Some(b), Some(x)),
            MemShape::BaseIndexDisp8 => (MemoryOperand::new(r(b), r(x), scale, d8, 1, false, seg), Some(b), Some(x)),
            MemShape::BaseIndexDisp32 => (MemoryOperand::new(r(b), r(x), scale, d32, 4, false, seg), Some(b), Some(x)),
            MemShape::IndexDisp32 => (MemoryOperand::new(Register::None, r(x), scale, d32, 4, false, seg), None, Some(x)),
            MemShape::Abs32 => (MemoryOperand::new(Register::None, Register::None, 1, 0, 4, false, seg), None, None),
            MemShape::RipRel => (MemoryOperand::new(if asz32 { Register::EIP } else { Register::RIP }, Register::None, 1, 0, 8, false, seg), None, None),
        };
        MemPlan { op, base, index, asz32, seg, shape }
    }

    /// choose register values (and displacement for base-less shapes) so that the operand's EA equals `target`
    fn fix_mem(&mut self, plan: &mut MemPlan, pre: &mut Pre, target: u64) {
        let segbase = match plan.seg {
            Register::FS => pre.fs,
            Register::GS => pre.gs,
            _ => 0,
        };
        let want = target.wrapping_sub(segbase); // offset part (before adding the segment base)
        let modulus_mask = if plan.asz32 { 0xffff_ffffu64 } else { u64::MAX };
        match plan.shape {
            MemShape::Abs32 | MemShape::RipRel => {
                plan.op.displacement = want as i64;
                return;
            }
            _ => {}
        }
        let scale = plan.op.scale as u64;
        let disp = plan.op.displacement as u64;
        if let Some(x) = plan.index {
            // index value: small, wrap-inducing or random
            let iv = match self.rng.gen_range(0..4) {
                0 => self.rng.gen_range(0..64),
                1 => u64::MAX - self.rng.gen_range(0..64),
                _ => biased_u64(&mut self.rng),
            };
            if plan.base.is_none() {
                // index*scale + disp = want  =>  choose the index so that it works: want - disp must be divisible by scale
                let need = want.wrapping_sub(disp) & modulus_mask;
                let iv = need / scale;
                let rem = need % scale;
                plan.op.displacement = (plan.op.displacement as u64).wrapping_add(rem) as i64;
                let hi = if plan.asz32 { biased_u64(&mut self.rng) & 0xffff_ffff_0000_0000 } else { 0 };
                pre.regs[x] = iv | hi;
                return;
            }
            pre.regs[x] = iv;
        }
        if let Some(b) = plan.base {
            let idx = plan.index.map(|x| pre.regs[x]).unwrap_or(0);
            let idxv = if plan.asz32 { idx & 0xffff_ffff } else { idx };
            let bv = want.wrapping_sub(idxv.wrapping_mul(scale)).wrapping_sub(disp) & modulus_mask;
            let hi = if plan.asz32 { biased_u64(&mut self.rng) & 0xffff_ffff_0000_0000 } else { 0 };
            pre.regs[b] = bv | hi;
        }
    }

    fn imm_for(&mut self, k: K) -> i64 {
        let v = biased_u64(&mut self.rng);
        match k {
            K::imm8 => (v & 0xff) as i64,
            K::imm8sex16 | K::imm8sex32 | K::imm8sex64 => (v as i8) as i64,
            K::imm16 => (v & 0xffff) as i64,
            K::imm32 => (v & 0xffff_ffff) as i64,
            K::imm32sex64 => (v as i32) as i64,
            K::imm64 => v as i64,
            _ => 1,
        }
    }

    /// Build one case for `code`.  mem_shape/place only matter if the form has a memory-capable operand and
    /// `use_mem` is set.  Returns None if the combination cannot be encoded.
    #[allow(clippy::too_many_arguments)]
    pub fn make(
        &mut self,
        code: Code,
        family: &str,
        use_mem: bool,
        shape: MemShape,
        place: Place,
        asz32: bool,
        seg: Register,
        pad: usize,
    ) -> Option<Case> {
        let oc = code.op_code();
        let mut pre = self.random_pre();
        let drain = std::mem::take(&mut self.next_drain);
        let mut shift = std::mem::take(&mut self.next_shift);
        if seg != Register::None || shape == MemShape::RipRel || asz32 {
            shift = 0;
        }
        pre.rip += shift;
        // segment bases: page-aligned ones and ones that are NOT 16-byte aligned (alignment is a property of the linear address)
        if seg == Register::FS {
            let rv = biased_u64(&mut self.rng) & 0x0000_3fff_ffff_f000;
            pre.fs = self.pick(&[0x1000u64, 0x20_0000, rv, 0x1008, rv | 0x8, 0x20_0004, rv | 0xff8]);
        }
        if seg == Register::GS {
            let rv = biased_u64(&mut self.rng) & 0x0000_3fff_ffff_f000;
            pre.gs = self.pick(&[GSB, 0x1000u64, 0x20_0000, rv, GSB + 8, rv | 0x8, 0x1004, rv | 0xff8]);
        }
        #[derive(Clone)]
        enum O {
            R(Register),
            M,
            I(i64),
            Br(u64),
        }
        let mut ops: Vec<O> = Vec::new();
        let mut used_gprs: Vec<usize> = Vec::new();
        let mut mem_w: u64 = 0;
        let mut has_mem = false;
        let m = code.mnemonic();
        let stack_like = matches!(m, Mnemonic::Push | Mnemonic::Pop | Mnemonic::Call | Mnemonic::Ret);
        for i in 0..oc.op_count() {
            let k = oc.op_kind(i);
            let w = match k {
                K::r8_or_mem | K::r8_reg | K::r8_opcode | K::al | K::cl => 8,
                K::r16_or_mem | K::r16_reg | K::r16_opcode | K::r16_rm | K::ax | K::dx => 16,
                K::r32_or_mem | K::r32_reg | K::r32_opcode | K::r32_rm | K::eax => 32,
                K::r64_or_mem | K::r64_reg | K::r64_opcode | K::r64_rm | K::rax => 64,
                K::xmm_or_mem | K::xmm_reg | K::xmm_rm => 128,
                _ => 0,
            };
            match k {
                K::r8_or_mem | K::r16_or_mem | K::r32_or_mem | K::r64_or_mem | K::xmm_or_mem if use_mem => {
                    ops.push(O::M);
                    has_mem = true;
                }
                K::mem | K::mem_offs => {
                    ops.push(O::M);
                    has_mem = true;
                }
                K::al => ops.push(O::R(Register::AL)),
                K::cl => ops.push(O::R(Register::CL)),
                K::ax => ops.push(O::R(Register::AX)),
                K::dx => ops.push(O::R(Register::DX)),
                K::eax => ops.push(O::R(Register::EAX)),
                K::rax => ops.push(O::R(Register::RAX)),
                K::imm8_const_1 => ops.push(O::I(1)),
                K::imm8 | K::imm8sex16 | K::imm8sex32 | K::imm8sex64 | K::imm16 | K::imm32 | K::imm32sex64 | K::imm64 => {
                    let mut v = self.imm_for(k);
                    if let Some(f) = self.next_imm.take() {
                        // forced value, cut to what the immediate field can hold
                        v = match k {
                            K::imm8 => f & 0xff,
                            K::imm8sex16 | K::imm8sex32 | K::imm8sex64 => (f as i8) as i64,
                            K::imm16 => f & 0xffff,
                            K::imm32 => f & 0xffff_ffff,
                            K::imm32sex64 => (f as i32) as i64,
                            _ => f,
                        };
                    }
                    ops.push(O::I(v))
                }
                K::br64_1 | K::br64_4 => ops.push(O::Br(PADS[pad] + shift)),
                _ => {
                    let mut pool = regs_of_width(w);
                    if stack_like || family == "flow" {
                        pool.retain(|r| r.full_register() != Register::RSP);
                    }
                    let mut r = self.pick(&pool);
                    // both operands the same register (xor r,r / sub r,r / xchg r,r ...) in a fifth of the register-register cases
                    if let Some(O::R(prev)) = ops.last() {
                        if prev.size() == r.size() && pool.contains(prev) && self.rng.gen_bool(0.2) {
                            r = *prev;
                        }
                    }
                    if let Some(ix) = gpr_index(r.full_register()) {
                        used_gprs.push(ix);
                    }
                    ops.push(O::R(r));
                }
            }
        }
        // memory operand
        let mut rsp_operand = false;
        let mut plan: Option<MemPlan> = None;
        if has_mem {
            let moffs = (0..oc.op_count()).any(|i| oc.op_kind(i) == K::mem_offs);
            let sh = if moffs { MemShape::Abs32 } else { shape };
            let mut forbid: Vec<usize> = Vec::new();
            if stack_like {
                forbid.push(6);
            }
            let mut p = self.mem_plan(sh, asz32, seg, &forbid);
            if stack_like && !moffs && !asz32 && seg == Register::None && self.rng.gen_bool(0.35) {
                // operand addressed through RSP itself: [rsp] / [rsp+disp8] (evaluated with the RSP before the push)
                let d8 = self.pick(&[0i64, 8, 16, -8, 0x10, 0x18]);
                p = MemPlan {
                    op: MemoryOperand::new(Register::RSP, Register::None, 1, d8, if d8 == 0 { 0 } else { 1 }, false, Register::None),
                    base: Some(6), index: None, asz32: false, seg: Register::None,
                    shape: if d8 == 0 { MemShape::Base } else { MemShape::BaseDisp8 },
                };
                rsp_operand = true;
            }
            if moffs {
                p.op = MemoryOperand::new(Register::None, Register::None, 1, 0, 8, false, seg);
            }
            // the destination register is also an ADDRESS register of the source operand (mov eax,[rax] / cmovne ecx,[rsi+rcx*4]):
            // the address is formed from the register's value BEFORE the instruction writes it
            if !moffs && !rsp_operand && !stack_like && self.rng.gen_bool(0.15) {
                if let Some(O::R(r0)) = ops.first() {
                    if let Some(ix) = gpr_index(r0.full_register()) {
                        let areg = |i: usize| -> Register {
                            if asz32 { regs_of_width(32).into_iter().find(|r| r.full_register() == GPR64[i]).unwrap() } else { GPR64[i] }
                        };
                        if p.index.is_some() && ix != 6 && p.base != Some(ix) && self.rng.gen_bool(0.6) {
                            p.op.index = areg(ix);
                            p.index = Some(ix);
                        } else if p.base.is_some() && p.index != Some(ix) {
                            p.op.base = areg(ix);
                            p.base = Some(ix);
                        }
                    }
                }
            }
            plan = Some(p);
        }
        // construct once to learn the memory access size, then fix registers
        let build = |ops: &Vec<O>, mem: Option<MemoryOperand>| -> Option<Instruction> {
            let mo = mem.unwrap_or_default();
            let r = match ops.len() {
                0 => Ok(Instruction::with(code)),
                1 => match &ops[0] {
                    O::R(r) => Instruction::with1(code, *r),
                    O::M => Instruction::with1(code, mo),
                    O::I(v) => Instruction::with1(code, *v as i32),
                    O::Br(t) => Instruction::with_branch(code, *t),
                },
                2 => match (&ops[0], &ops[1]) {
                    (O::R(a), O::R(b)) => Instruction::with2(code, *a, *b),
                    (O::R(a), O::M) => Instruction::with2(code, *a, mo),
                    (O::M, O::R(b)) => Instruction::with2(code, mo, *b),
                    (O::R(a), O::I(v)) => {
                        if oc.op_kind(1) == K::imm64 {
                            Instruction::with2(code, *a, *v)
                        } else if oc.op_kind(1) == K::imm32 && (*v as u64) > i32::MAX as u64 {
                            Instruction::with2(code, *a, *v as u32)
                        } else {
                            Instruction::with2(code, *a, *v as i32)
                        }
                    }
                    (O::M, O::I(v)) => {
                        if oc.op_kind(1) == K::imm32 && (*v as u64) > i32::MAX as u64 {
                            Instruction::with2(code, mo, *v as u32)
                        } else {
                            Instruction::with2(code, mo, *v as i32)
                        }
                    }
                    _ => return None,
                },
                3 => match (&ops[0], &ops[1], &ops[2]) {
                    (O::R(a), O::R(b), O::I(v)) => Instruction::with3(code, *a, *b, *v as i32),
                    (O::R(a), O::M, O::I(v)) => Instruction::with3(code, *a, mo, *v as i32),
                    _ => return None,
                },
                _ => return None,
            };
            r.ok()
        };
        let probe = build(&ops, plan.as_ref().map(|p| p.op))?;
        if has_mem {
            mem_w = probe.memory_size().size() as u64;
            if m == Mnemonic::Lea || (m == Mnemonic::Nop) {
                mem_w = 1;
            }
        }
        // special operand preparation per mnemonic
        self.prepare_special(m, code, &mut pre, &ops.iter().map(|o| matches!(o, O::M)).collect::<Vec<_>>());
        // stack pointer for stack / flow instructions
        if stack_like {
            pre.regs[6] = STK + 0x400 + 8 * self.rng.gen_range(0..64) + self.pick(&[0u64, 0, 0, 2, 4, 6]);
            if let Some(e) = self.stack_edge.take() {
                if !rsp_operand {
                    pre.regs[6] = e;
                }
            }
        }
        let mut target = 0u64;
        if let Some(p) = plan.as_mut() {
            target = self.target_for(place, mem_w.max(1));
            if m == Mnemonic::Lea && family == "ea" && self.rng.gen_bool(0.5) {
                // LEA accesses nothing: any effective address is a valid case (beyond 2^31 / 2^32, next to 2^64)
                target = biased_u64(&mut self.rng);
                if asz32 {
                    target &= 0xffff_ffff;
                }
            }
            if rsp_operand {
                target = STK + 0x400 + 8 * self.rng.gen_range(0..64u64);
            }
            self.fix_mem(p, &mut pre, target);
        }
        let instr = build(&ops, plan.as_ref().map(|p| p.op))?;
        let mut enc = Encoder::new(64);
        // direct branches now and then carry a prefix the architecture ignores there (branch hints 2E / 3E, REX.W, the BND prefix F2):
        // the instruction is one byte longer - and so is the return address of a CALL, the fall-through address of a Jcc
        let direct = (0..oc.op_count()).any(|i| matches!(oc.op_kind(i), K::br64_1 | K::br64_4));
        let prefix: Option<u8> = if direct && family != "prog" && family != "two" && family != "bytes" && self.rng.gen_bool(0.15) {
            Some(self.pick(&[0x2eu8, 0x3e, 0x48, 0xf2]))
        } else {
            None
        };
        enc.encode(&instr, pre.rip + prefix.is_some() as u64).ok()?;
        let mut bytes = enc.take_buffer();
        if let Some(pb) = prefix {
            bytes.insert(0, pb);
        }
        if bytes.is_empty() || bytes.len() > 15 {
            return None;
        }
        // operand values for memory operands that are READ: boundary-biased contents (only when readable & mapped)
        if has_mem && matches!(place, Place::Rw | Place::Ro | Place::LastFit | Place::Misalign) && m != Mnemonic::Lea {
            let mut v = Vec::new();
            for _ in 0..((mem_w + 7) / 8).max(1) {
                v.extend_from_slice(&biased_u64(&mut self.rng).to_le_bytes());
            }
            v.truncate(mem_w as usize);
            if self.rng.gen_bool(0.7) {
                pre.ov.push((target, v));
            }
        }
        self.memory_special(m, code, &mut pre, target, mem_w, has_mem);
        // code image: instruction bytes, fall-through stub, landing pads
        if drain > 0 {
            pre.ov.push((CODE + shift + 0x10, vec![0xc3]));
        }
        pre.ov.push((pre.rip, bytes.clone()));
        pre.ov.push((pre.rip + bytes.len() as u64, crate::native::pad_stub(1)));
        for (k, p) in PADS.iter().enumerate() {
            pre.ov.push((*p, crate::native::pad_stub(2 + k as u8)));
        }
        if family == "fault" && matches!(m, Mnemonic::Add | Mnemonic::Adc | Mnemonic::Sub | Mnemonic::And | Mnemonic::Xor)
            && instr.op_count() == 2 && instr.op0_kind() == OpKind::Memory && instr.op1_kind() == OpKind::Register && self.rng.gen_bool(0.4)
        {
            // a read-modify-write whose result equals the old memory content (x+0, x&-1, ...): the store - and with it
            // the write-permission check - must happen all the same
            let r = instr.op1_register();
            if let Some(ix) = gpr_index(r.full_register()) {
                let used_in_ea = plan.as_ref().map(|p| p.base == Some(ix) || p.index == Some(ix)).unwrap_or(false);
                if !used_in_ea && !matches!(r, Register::AH | Register::BH | Register::CH | Register::DH) {
                    pre.regs[ix] = if m == Mnemonic::And { u64::MAX } else { 0 };
                    if m == Mnemonic::Adc {
                        pre.fl &= !1;
                    }
                }
            }
        }
        if matches!(m, Mnemonic::Div | Mnemonic::Idiv) && instr.op0_kind() == OpKind::Register {
            // register divisor: use the one the dividend was built for, unless the register is part of the dividend
            if let (Some(d), Some(ix)) = (self.last_divisor.take(), gpr_index(instr.op0_register().full_register())) {
                let r = instr.op0_register();
                if ix != 0 && ix != 3 && !matches!(r, Register::AH | Register::BH | Register::CH | Register::DH) {
                    let m64 = if r.size() == 8 { u64::MAX } else { (1u64 << (r.size() * 8)) - 1 };
                    pre.regs[ix] = (pre.regs[ix] & !m64) | (d & m64);
                }
            }
        }
        self.last_divisor = None;
        if matches!(m, Mnemonic::Imul | Mnemonic::Mul) && self.rng.gen_bool(0.6) {
            self.mul_special(m, &instr, &mut pre, target, mem_w);
        }
        // indirect branch targets / return addresses
        if class_of(m) == "flow" {
            self.flow_special(m, code, &mut pre, &instr, target, pad, family);
        }
        let uses_fs = seg == Register::FS && has_mem;
        let uses_gs = seg == Register::GS && has_mem;
        let touches_xmm = (0..oc.op_count()).any(|i| matches!(oc.op_kind(i), K::xmm_or_mem | K::xmm_reg | K::xmm_rm));
        let native_ok = shift == 0 && drain == 0 && !uses_fs && !matches!(m, Mnemonic::Syscall | Mnemonic::Int | Mnemonic::Int1 | Mnemonic::Int3)
            && !(uses_gs && pre.gs >= 0x0000_8000_0000_0000);
        let id = self.next_id;
        self.next_id += 1;
        let shape_name = if has_mem {
            format!("{:?}{}{}/{:?}", plan.as_ref().unwrap().shape, if asz32 { "/a32" } else { "" },
                    match seg { Register::FS => "/fs", Register::GS => "/gs", _ => "" }, place)
        } else {
            "reg".to_string()
        };
        let _ = used_gprs;
        Some(Case { id, family: family.to_string(), shape: shape_name, instr, bytes, pre, native_ok, uses_gs, touches_xmm, mem_target: target, mem_w, rip_override: None, drain, code_shift: shift })
    }

    fn prepare_special(&mut self, m: Mnemonic, code: Code, pre: &mut Pre, _is_mem: &[bool]) {
        match m {
            Mnemonic::Shl | Mnemonic::Shr => {
                // shift count in CL: masked-to-zero, 1, width-1, width, width+1, >= 32/64, 255, random
                let c = self.pick(&[0u64, 1, 7, 8, 9, 15, 16, 17, 31, 32, 33, 63, 64, 65, 128, 255, 0x20, 0x40, 0x60]);
                let c = if self.rng.gen_bool(0.25) { self.rng.gen_range(0..256) } else { c };
                pre.regs[2] = (pre.regs[2] & !0xff) | c;
            }
            Mnemonic::Div | Mnemonic::Idiv => {
                // dividend / divisor near the quotient boundary are arranged in memory_special (needs the operand);
                // here: make RDX:RAX plausible (small high part) half of the time
                if self.rng.gen_bool(0.5) {
                    pre.regs[3] = self.pick(&[0u64, 0, 1, u64::MAX, 0xffff_ffff, 0xffff, 0x7f]);
                }
                let _ = code;
            }
            _ => {}
        }
    }

    fn memory_special(&mut self, m: Mnemonic, code: Code, pre: &mut Pre, target: u64, mem_w: u64, has_mem: bool) {
        if matches!(m, Mnemonic::Div | Mnemonic::Idiv) {
            // construct n = q*d + r with q at the representability boundary
            let w: u32 = match code {
                Code::Div_rm8 | Code::Idiv_rm8 => 8,
                Code::Div_rm16 | Code::Idiv_rm16 => 16,
                Code::Div_rm32 | Code::Idiv_rm32 => 32,
                _ => 64,
            };
            if self.iter_hint < 8 || self.rng.gen_bool(0.75) {
                let signed = m == Mnemonic::Idiv;
                let mask: u128 = if w == 64 { u64::MAX as u128 } else { (1u128 << w) - 1 };
                let mut d = (biased_u64(&mut self.rng) as u128) & mask;
                self.last_divisor = None;
                if self.rng.gen_bool(0.08) {
                    d = 0;
                }
                let half: i128 = 1i128 << (w - 1);
                let (mut n_lo, mut n_hi): (u128, u128);
                if !signed {
                    let q: u128 = self.pick(&[0u128, 1, mask, mask - 1, mask + 1, mask + 2, (mask >> 1), (mask >> 1) + 1]);
                    let r: u128 = if d > 1 { (biased_u64(&mut self.rng) as u128) % d } else { 0 };
                    let n = q.wrapping_mul(d).wrapping_add(r);
                    n_lo = n & mask;
                    n_hi = (n >> w) & mask;
                } else {
                    let ds: i128 = if d & (1u128 << (w - 1)) != 0 { d as i128 - (1i128 << w) } else { d as i128 };
                    let q: i128 = self.pick(&[0i128, 1, -1, half - 1, half, half + 1, -half, -half - 1, -half + 1, 2, -2]);
                    let rmax = ds.unsigned_abs();
                    let mut r: i128 = if rmax > 1 { (biased_u64(&mut self.rng) as u128 % rmax) as i128 } else { 0 };
                    let n0 = q * ds;
                    if n0 < 0 || (n0 == 0 && self.rng.gen_bool(0.5)) {
                        r = -r;
                    }
                    let n = n0 + r;
                    let nu = n as u128;
                    n_lo = nu & mask;
                    n_hi = (nu >> w) & mask;
                }
                // extreme dividends: most negative / largest 2w-bit values with divisors -1, 1, 2.  The first cases of every
                // form walk through the list deterministically, later ones pick at random.
                let top = 1u128 << (w - 1);
                let extremes: [(u128, u128, u128); 8] = [
                    (top, 0, mask),            // MIN / -1   (quotient 2^(2w-1): does not fit)
                    (top, 0, 1),               // MIN / 1
                    (top, 1, mask),            // (MIN+1) / -1
                    (top - 1, mask, 1),        // MAX / 1
                    (top - 1, mask, mask),     // MAX / -1
                    (mask, top, mask),         // -2^(w-1) / -1  (quotient 2^(w-1): does not fit)
                    (mask, top, 1),            // -2^(w-1) / 1   (fits exactly)
                    (0, top - 1, mask),        // (2^(w-1)-1) / -1
                ];
                if self.iter_hint < extremes.len() || self.rng.gen_bool(0.08) {
                    let k = if self.iter_hint < extremes.len() { self.iter_hint } else { self.rng.gen_range(0..extremes.len()) };
                    n_hi = extremes[k].0;
                    n_lo = extremes[k].1;
                    d = extremes[k].2;
                }
                self.last_divisor = Some(d as u64);
                // place divisor
                if has_mem {
                    let mut b = (d as u64).to_le_bytes().to_vec();
                    b.truncate(mem_w as usize);
                    pre.ov.retain(|(a, _)| *a != target);
                    pre.ov.push((target, b));
                } else {
                    // register operand: find it from the instruction later; simplest: the generator always uses the
                    // register chosen in ops[0]; we cannot see it here, so set ALL candidate registers' low part
                    // is too invasive - instead the caller's random registers stay and only memory forms get exact
                    // boundary operands.  (register forms get boundary dividends via the high part below)
                }
                if w == 8 {
                    pre.regs[0] = (pre.regs[0] & !0xffff) | ((n_hi as u64 & 0xff) << 8) | (n_lo as u64 & 0xff);
                } else {
                    let m64 = if w == 64 { u64::MAX } else { (1u64 << w) - 1 };
                    pre.regs[0] = (pre.regs[0] & !m64) | (n_lo as u64 & m64);
                    pre.regs[3] = (pre.regs[3] & !m64) | (n_hi as u64 & m64);
                }
            }
        }
    }

    /// multiplicands whose product lies at / next to the boundaries where CF/OF change (|p| ~ 2^(w-1), 2^w)
    fn mul_special(&mut self, m: Mnemonic, instr: &Instruction, pre: &mut Pre, target: u64, mem_w: u64) {
        let n = instr.op_count();
        // operand width from the first operand (register or memory)
        let w: u32 = match instr.op0_kind() {
            OpKind::Register => instr.op0_register().size() as u32 * 8,
            _ => (mem_w * 8) as u32,
        };
        if w == 0 || w > 64 {
            return;
        }
        let signed = m == Mnemonic::Imul;
        let one: i128 = 1;
        let cands: Vec<i128> = if signed {
            vec![(one << (w - 1)) - 1, one << (w - 1), (one << (w - 1)) + 1, (one << w) - 1, one << w, -(one << (w - 1)), -(one << (w - 1)) - 1,
                 -(one << w), -(one << w) + 1, (one << (w - 1)) + (one << (w - 2)), -(one << (w - 1)) - (one << (w - 2))]
        } else {
            vec![(one << w) - 1, one << w, (one << w) + 1, (one << (w - 1)), (one << w) + (one << (w - 1))]
        };
        let p = cands[self.rng.gen_range(0..cands.len())];
        // a: a small-ish factor (possibly negative), b = p / a
        let mut a: i128 = (biased_u64(&mut self.rng) as i128) & ((one << (w / 2 + self.rng.gen_range(0..3))) - 1);
        if a == 0 {
            a = 1;
        }
        if signed && self.rng.gen_bool(0.4) {
            a = -a;
        }
        let mut b = p / a;
        if self.rng.gen_bool(0.3) {
            b += if self.rng.gen_bool(0.5) { 1 } else { -1 };
        }
        let mask: u128 = if w == 64 { u64::MAX as u128 } else { (1u128 << w) - 1 };
        let au = (a as u128 & mask) as u64;
        let bu = (b as u128 & mask) as u64;
        let set_reg = |pre: &mut Pre, r: Register, v: u64| {
            if let Some(ix) = gpr_index(r.full_register()) {
                let m64 = if r.size() == 8 { u64::MAX } else { (1u64 << (r.size() * 8)) - 1 };
                if matches!(r, Register::AH | Register::BH | Register::CH | Register::DH) {
                    pre.regs[ix] = (pre.regs[ix] & !0xff00) | ((v & 0xff) << 8);
                } else {
                    pre.regs[ix] = (pre.regs[ix] & !m64) | (v & m64);
                }
            }
        };
        let set_op = |pre: &mut Pre, k: u32, v: u64| match instr.op_kind(k) {
            OpKind::Register => set_reg(pre, instr.op_register(k), v),
            OpKind::Memory => {
                let mut bts = v.to_le_bytes().to_vec();
                bts.truncate(mem_w as usize);
                pre.ov.retain(|(a, _)| *a != target);
                pre.ov.push((target, bts));
            }
            _ => {}
        };
        match n {
            1 => {
                // accumulator * operand
                let acc = match w { 8 => Register::AL, 16 => Register::AX, 32 => Register::EAX, _ => Register::RAX };
                set_reg(pre, acc, au);
                set_op(pre, 0, bu);
            }
            2 => {
                set_op(pre, 1, bu);
                set_op(pre, 0, au);
            }
            _ => {
                // r, r/m, imm: the immediate is fixed; choose the source so that the product is near the boundary
                let imm = instr.immediate(2) as i64 as i128;
                if imm != 0 {
                    let src = p / imm;
                    set_op(pre, 1, (src as u128 & mask) as u64);
                }
            }
        }
    }

    #[allow(clippy::too_many_arguments)]
    fn flow_special(&mut self, m: Mnemonic, code: Code, pre: &mut Pre, instr: &Instruction, target: u64, pad: usize, family: &str) {
        let padaddr = PADS[pad];
        match m {
            Mnemonic::Jmp | Mnemonic::Call => {
                if instr.op_count() == 1 && instr.op0_kind() == OpKind::Register {
                    if let Some(ix) = gpr_index(instr.op0_register().full_register()) {
                        pre.regs[ix] = padaddr;
                    }
                } else if instr.op_count() == 1 && instr.op0_kind() == OpKind::Memory {
                    pre.ov.retain(|(a, _)| *a != target);
                    pre.ov.push((target, padaddr.to_le_bytes().to_vec()));
                }
            }
            Mnemonic::Ret => {
                let rsp = pre.regs[6];
                // hardware pops [rsp]; ax's convention reads [rsp+8].  The flow family puts the same landing pad in
                // both slots (only the branch semantics is judged); the stack family puts different pads there.
                let other = if family == "stack" { PADS[(pad + 1) % 4] } else { padaddr };
                pre.ov.push((rsp, padaddr.to_le_bytes().to_vec()));
                pre.ov.push((rsp + 8, other.to_le_bytes().to_vec()));
            }
            Mnemonic::Jrcxz | Mnemonic::Jecxz => {
                let v = self.pick(&[0u64, 0, 1, 0x1_0000_0000, 0xffff_ffff_0000_0000, 0xffff_ffff, u64::MAX]);
                pre.regs[2] = if self.rng.gen_bool(0.2) { biased_u64(&mut self.rng) } else { v };
            }
            _ => {}
        }
        let _ = code;
    }
}

/// give operand k of the case's instruction the value v (register: its view; memory: the bytes at the operand's address)
pub fn set_operand(c: &mut Case, k: u32, v: u64) {
    match c.instr.op_kind(k) {
        OpKind::Register => {
            let r = c.instr.op_register(k);
            if let Some(ix) = gpr_index(r.full_register()) {
                if matches!(r, Register::AH | Register::BH | Register::CH | Register::DH) {
                    c.pre.regs[ix] = (c.pre.regs[ix] & !0xff00) | ((v & 0xff) << 8);
                } else {
                    let m64 = if r.size() == 8 { u64::MAX } else { (1u64 << (r.size() * 8)) - 1 };
                    c.pre.regs[ix] = (c.pre.regs[ix] & !m64) | (v & m64);
                }
            }
        }
        OpKind::Memory => {
            let mut b = v.to_le_bytes().to_vec();
            b.truncate(c.mem_w.min(8) as usize);
            let t = c.mem_target;
            c.pre.ov.retain(|(a, _)| *a != t);
            c.pre.ov.push((t, b));
        }
        _ => {}
    }
}

/// operand values at which carries, borrows and signed overflow change, for a w-bit operand
fn boundaries(w: u32) -> Vec<u64> {
    let mask = if w == 64 { u64::MAX } else { (1u64 << w) - 1 };
    let top = 1u64 << (w - 1);
    vec![0, 1, mask, top, top - 1, top + 1, mask - 1]
}

// ---- running a case on ax ------------------------------------------------------------------------------------------
pub fn run_ax(c: &Case, lay: &Layout) -> Post {
    let r = catch_unwind(AssertUnwindSafe(|| -> Result<Post, String> {
        let code_area = Area { name: "CODE", start: CODE + c.code_shift, len: 0x1000, prot: 5 };
        let code_img = lay.image(&code_area, c);
        let mut ax = Axecutor::new(&code_img, CODE + c.code_shift, c.pre.rip).map_err(|e| format!("setup: {e}"))?;
        let mut images = vec![(CODE + c.code_shift, code_img)];
        for a in AREAS.iter().skip(1) {
            let img = lay.image(a, c);
            ax.mem_init_area(a.start, img.clone()).map_err(|e| format!("setup: {e}"))?;
            ax.mem_prot(a.start, a.prot).map_err(|e| format!("setup: {e}"))?;
            images.push((a.start, img));
        }
        // unmatched RETs before the judged step: ax keeps a diagnostic record of calls next to the real stack; the record
        // must never influence what an instruction does (the registers the RETs move are written afterwards anyway)
        for _ in 0..c.drain {
            let rip = ax_x86::state::registers::SupportedRegister::RIP;
            ax.reg_write_64(rip, CODE + c.code_shift + 0x10).map_err(|e| format!("setup: {e}"))?;
            ax.reg_write_64(crate::interp::reg_by_name("RSP").unwrap(), STK + 0x800).map_err(|e| format!("setup: {e}"))?;
            let _ = catch_unwind(AssertUnwindSafe(|| async_std::task::block_on(ax.step())));
            ax.reg_write_64(rip, c.pre.rip).map_err(|e| format!("setup: {e}"))?;
        }
        for (i, name) in crate::interp::GPRS.iter().take(16).enumerate() {
            ax.reg_write_64(crate::interp::reg_by_name(name).unwrap(), c.pre.regs[i]).map_err(|e| format!("setup: {e}"))?;
        }
        for i in 0..16 {
            ax.reg_write_128(crate::interp::reg_by_name(&format!("XMM{i}")).unwrap(), c.pre.xmm[i]).map_err(|e| format!("setup: {e}"))?;
        }
        ax.verif_set_rflags(c.pre.fl);
        ax.write_fs(c.pre.fs);
        ax.write_gs(c.pre.gs);
        if let Some(r) = c.rip_override {
            ax.reg_write_64(ax_x86::state::registers::SupportedRegister::RIP, r).map_err(|e| format!("setup: {e}"))?;
        }
        let step = catch_unwind(AssertUnwindSafe(|| async_std::task::block_on(ax.step())));
        let (out, msg) = match step {
            Ok(Ok(_)) => (Outcome::Ok, String::new()),
            Ok(Err(e)) => {
                let s = e.to_string();
                let first = s.lines().nth(1).unwrap_or("").to_string();
                (Outcome::Err(classify_err(&s)), first)
            }
            Err(p) => {
                let s = if let Some(s) = p.downcast_ref::<&str>() { s.to_string() } else if let Some(s) = p.downcast_ref::<String>() { s.clone() } else { "?".into() };
                (Outcome::Crash(s.clone()), s)
            }
        };
        let mut regs = [0u64; 16];
        for (i, name) in crate::interp::GPRS.iter().take(16).enumerate() {
            regs[i] = ax.reg_read_64(crate::interp::reg_by_name(name).unwrap()).unwrap_or(0);
        }
        let mut xmm = [0u128; 16];
        for (i, x) in xmm.iter_mut().enumerate() {
            *x = ax.reg_read_128(crate::interp::reg_by_name(&format!("XMM{i}")).unwrap()).unwrap_or(0);
        }
        let rip = ax.reg_read_64(ax_x86::state::registers::SupportedRegister::RIP).unwrap_or(0);
        let mut mem = Vec::new();
        let meta = ax.verif_area_meta();
        for (idx, (start, _len, _prot, _dlen, _name)) in meta.iter().enumerate() {
            if let Some(k) = images.iter().position(|(a, _)| a == start) {
                diff_runs(*start, &images[k].1, ax.verif_area_data(idx), &mut mem);
            } else {
                mem.push((*start, vec![0xEE]));
            }
        }
        if meta.len() != AREAS.len() {
            mem.push((0, vec![0xEE]));
        }
        let fs_gs_changed = ax.read_fs() != c.pre.fs || ax.read_gs() != c.pre.gs;
        let mut msg = msg;
        if fs_gs_changed {
            msg = format!("SEGBASE-CHANGED {msg}");
        }
        Ok(Post { out, regs, xmm, fl: ax.verif_rflags(), rip, mem, msg })
    }));
    match r {
        Ok(Ok(p)) => p,
        Ok(Err(s)) => Post { out: Outcome::Crash(format!("harness setup failed: {s}")), regs: [0; 16], xmm: [0; 16], fl: 0, rip: 0, mem: vec![], msg: s },
        Err(_) => Post { out: Outcome::Crash("panic during setup".into()), regs: [0; 16], xmm: [0; 16], fl: 0, rip: 0, mem: vec![], msg: String::new() },
    }
}

fn classify_err(s: &str) -> String {
    if s.contains("unimplemented") || s.contains("not supported") || s.contains("Unsupported") {
        "unimplemented".into()
    } else if s.contains("decode") || s.contains("Invalid instruction") {
        "decode".into()
    } else {
        "other".into()
    }
}

// ---- event output -------------------------------------------------------------------------------------------------
fn b8(v: u64) -> Value {
    json!(v.to_le_bytes().to_vec())
}
fn regname(r: Register) -> String {
    format!("{r:?}")
}

pub fn insn_desc(c: &Case) -> Value {
    let i = &c.instr;
    let mut ops = Vec::new();
    for k in 0..i.op_count() {
        let mut o = Map::new();
        o.insert("k".into(), json!("none"));
        o.insert("r".into(), json!(""));
        o.insert("w".into(), json!(0));
        o.insert("base".into(), json!(""));
        o.insert("index".into(), json!(""));
        o.insert("scale".into(), json!(1));
        o.insert("disp".into(), b8(0));
        o.insert("seg".into(), json!(""));
        o.insert("asz".into(), json!(64));
        o.insert("v".into(), b8(0));
        match i.op_kind(k) {
            OpKind::Register => {
                let r = i.op_register(k);
                o.insert("k".into(), json!("reg"));
                o.insert("r".into(), json!(regname(r)));
                o.insert("w".into(), json!(r.size() * 8));
            }
            OpKind::Memory => {
                o.insert("k".into(), json!("mem"));
                o.insert("w".into(), json!(i.memory_size().size() * 8));
                let base = i.memory_base();
                let riprel = base == Register::RIP || base == Register::EIP;
                if !riprel && base != Register::None {
                    o.insert("base".into(), json!(regname(base.full_register())));
                }
                if i.memory_index() != Register::None {
                    o.insert("index".into(), json!(regname(i.memory_index().full_register())));
                }
                o.insert("scale".into(), json!(i.memory_index_scale()));
                o.insert("disp".into(), b8(i.memory_displacement64()));
                let asz = if base.is_gpr32() || i.memory_index().is_gpr32() || base == Register::EIP { 32 } else { 64 };
                // absolute 32-bit address-size forms cannot be told apart from the registers: consult the prefix
                let asz = if c.bytes.iter().take_while(|b| is_prefix(**b)).any(|b| *b == 0x67) { 32 } else { asz };
                o.insert("asz".into(), json!(asz));
                let seg = i.segment_prefix();
                o.insert("seg".into(), json!(match seg { Register::FS => "fs", Register::GS => "gs", _ => "" }));
            }
            OpKind::NearBranch64 => {
                o.insert("k".into(), json!("br"));
                o.insert("v".into(), b8(i.near_branch64()));
            }
            OpKind::Immediate8 | OpKind::Immediate16 | OpKind::Immediate32 | OpKind::Immediate64 | OpKind::Immediate8to16
            | OpKind::Immediate8to32 | OpKind::Immediate8to64 | OpKind::Immediate32to64 | OpKind::Immediate8_2nd => {
                o.insert("k".into(), json!("imm"));
                o.insert("v".into(), b8(i.immediate(k)));
            }
            _ => {}
        }
        ops.push(Value::Object(o));
    }
    json!({"m": format!("{:?}", i.mnemonic()).to_lowercase(), "code": format!("{:?}", i.code()), "len": c.bytes.len(), "ops": ops})
}

fn is_prefix(b: u8) -> bool {
    matches!(b, 0x66 | 0x67 | 0xf2 | 0xf3 | 0x2e | 0x36 | 0x3e | 0x26 | 0x64 | 0x65 | 0xf0) || (0x40..=0x4f).contains(&b)
}

fn fl_json(fl: u64) -> Value {
    json!({"cf": fl & 1, "pf": (fl >> 2) & 1, "af": (fl >> 4) & 1, "zf": (fl >> 6) & 1, "sf": (fl >> 7) & 1, "df": (fl >> 10) & 1, "of": (fl >> 11) & 1})
}

pub fn event(c: &Case, p: &Post, src: &str) -> Value {
    let mut regs = Map::new();
    for (i, name) in crate::interp::GPRS.iter().take(16).enumerate() {
        regs.insert(name.to_string(), b8(c.pre.regs[i]));
    }
    let mut pr = Map::new();
    for (i, name) in crate::interp::GPRS.iter().take(16).enumerate() {
        if p.regs[i] != c.pre.regs[i] {
            pr.insert(name.to_string(), b8(p.regs[i]));
        }
    }
    let mut xmm = Map::new();
    let mut px = Map::new();
    let xchanged = (0..16).any(|i| p.xmm[i] != c.pre.xmm[i]);
    if c.touches_xmm || xchanged {
        for i in 0..16 {
            xmm.insert(format!("XMM{i}"), json!(c.pre.xmm[i].to_le_bytes().to_vec()));
            if p.xmm[i] != c.pre.xmm[i] {
                px.insert(format!("XMM{i}"), json!(p.xmm[i].to_le_bytes().to_vec()));
            }
        }
    }
    let (out, sub) = match &p.out {
        Outcome::Ok => ("ok", String::new()),
        Outcome::Err(k) => ("err", k.clone()),
        Outcome::Crash(m) => ("crash", m.clone()),
        Outcome::Fault(s) => ("fault", s.clone()),
        Outcome::Hang => ("hang", String::new()),
    };
    let ok = p.out == Outcome::Ok;
    // what a FAILED step left behind (registers other than RIP, flags, XMM, memory): a refused instruction produces no result
    let mut left = Vec::new();
    if matches!(p.out, Outcome::Err(_)) {
        for (i, name) in crate::interp::GPRS.iter().take(16).enumerate() {
            if p.regs[i] != c.pre.regs[i] {
                left.push(json!(name));
            }
        }
        if (p.fl & FLMASK) != (c.pre.fl & FLMASK) {
            left.push(json!("flags"));
        }
        if (0..16).any(|i| p.xmm[i] != c.pre.xmm[i]) {
            left.push(json!("xmm"));
        }
        if !p.mem.is_empty() {
            left.push(json!("memory"));
        }
    }
    json!({
        "c": c.id, "src": src, "fam": c.family, "i": insn_desc(c),
        "pre": {"r": regs, "x": xmm, "hasx": c.touches_xmm || xchanged, "f": fl_json(c.pre.fl), "fs": b8(c.pre.fs), "gs": b8(c.pre.gs),
                "rip": b8(c.pre.rip), "ov": c.pre.ov.iter().map(|(a, b)| json!([a, b])).collect::<Vec<_>>()},
        "out": out, "sub": sub, "left": left,
        "post": {"r": if ok { Value::Object(pr) } else { json!({}) }, "x": if ok { Value::Object(px) } else { json!({}) },
                 "f": fl_json(if ok { p.fl } else { c.pre.fl }), "rip": b8(if ok { p.rip } else { 0 }),
                 "m": if ok { p.mem.iter().map(|(a, b)| json!([a, b])).collect::<Vec<_>>() } else { vec![] },
                 "otherfl": if ok { (p.fl & !FLMASK & !0x202) != (c.pre.fl & !FLMASK & !0x202) } else { false }},
    })
}

/// low 8 bytes of each operand's value in the pre-state (for reporting / finding keys only)
fn operand_values(c: &Case) -> Vec<Value> {
    let lay = Layout;
    let mut v = Vec::new();
    for k in 0..c.instr.op_count() {
        match c.instr.op_kind(k) {
            OpKind::Register => {
                let r = c.instr.op_register(k);
                if let Some(ix) = gpr_index(r.full_register()) {
                    let full = c.pre.regs[ix];
                    let val = match r.size() {
                        1 => if matches!(r, Register::AH | Register::BH | Register::CH | Register::DH) { (full >> 8) & 0xff } else { full & 0xff },
                        2 => full & 0xffff,
                        4 => full & 0xffff_ffff,
                        _ => full,
                    };
                    v.push(json!({"k": "reg", "bits": r.size() * 8, "v": val}));
                } else {
                    v.push(json!({"k": "reg", "bits": r.size() * 8, "v": 0}));
                }
            }
            OpKind::Memory => {
                let mut val = 0u64;
                if let Some(a) = AREAS.iter().find(|a| c.mem_target >= a.start && c.mem_target.checked_add(c.mem_w.min(8)).map_or(false, |e| e <= a.start + a.len)) {
                    let img = lay.image(a, c);
                    for j in 0..c.mem_w.min(8) {
                        val |= (img[(c.mem_target - a.start + j) as usize] as u64) << (8 * j);
                    }
                }
                v.push(json!({"k": "mem", "bits": c.mem_w * 8, "v": val, "addr": c.mem_target}));
            }
            OpKind::NearBranch64 | OpKind::NearBranch32 | OpKind::NearBranch16 => v.push(json!({"k": "br", "bits": 0, "v": c.instr.near_branch_target()})),
            OpKind::Immediate8 | OpKind::Immediate16 | OpKind::Immediate32 | OpKind::Immediate64 | OpKind::Immediate8to16 | OpKind::Immediate8to32
            | OpKind::Immediate8to64 | OpKind::Immediate32to64 | OpKind::Immediate8_2nd => v.push(json!({"k": "imm", "bits": 0, "v": c.instr.immediate(k)})),
            _ => v.push(json!({"k": "other", "bits": 0, "v": 0})),
        }
    }
    v
}

pub fn meta(c: &Case, p_ax: &Post) -> Value {
    json!({"opvals": operand_values(c),"c": c.id, "fam": c.family, "code": format!("{:?}", c.instr.code()), "shape": c.shape,
           "bytes": c.bytes, "text": format!("{}", c.instr), "msg": p_ax.msg,
           "pre": {"regs": c.pre.regs.to_vec(), "fl": c.pre.fl, "fs": c.pre.fs, "gs": c.pre.gs,
                   "ov": c.pre.ov.iter().filter(|(a, _)| *a < CODE || *a >= CODE + 0x1000).map(|(a, b)| json!([a, b])).collect::<Vec<_>>()}})
}

// ---- families -------------------------------------------------------------------------------------------------------
pub fn load_forms(path: &str) -> std::collections::HashMap<String, Vec<String>> {
    let s = std::fs::read_to_string(path).unwrap_or_else(|_| "{}".into());
    serde_json::from_str(&s).unwrap_or_default()
}

fn code_by_name(name: &str) -> Option<Code> {
    Code::values().find(|c| format!("{c:?}") == name)
}

pub fn gen_family(g: &mut Gen, family: &str, per_form: usize, forms: &std::collections::HashMap<String, Vec<String>>) -> Vec<Case> {
    let mut out = Vec::new();
    let mut names: Vec<&String> = forms.keys().collect();
    names.sort();
    for name in names {
        let code = match code_by_name(name) {
            Some(c) => c,
            None => continue,
        };
        let shapes = &forms[name];
        let m = code.mnemonic();
        let cls = class_of(m);
        let has_reg = shapes.iter().any(|s| s == "reg");
        let has_mem = shapes.iter().any(|s| s == "mem");
        let want = match family {
            "data" => cls == "data",
            "flow" => cls == "flow",
            "stack" => cls == "stack" || matches!(m, Mnemonic::Call | Mnemonic::Ret),
            "ea" => matches!(m, Mnemonic::Lea | Mnemonic::Mov | Mnemonic::Movzx | Mnemonic::Add | Mnemonic::Movups | Mnemonic::Inc | Mnemonic::Neg
                             | Mnemonic::Not | Mnemonic::Dec | Mnemonic::Cmovae | Mnemonic::Cmove | Mnemonic::Cmovne | Mnemonic::Movsxd) && has_mem,
            "fault" => matches!(m, Mnemonic::Div | Mnemonic::Idiv | Mnemonic::Xorps | Mnemonic::Movups) || (has_mem && cls == "data"),
            _ => false,
        };
        if !want {
            continue;
        }
        // alignment-checked 128-bit forms get four times the cases in the fault family (placement x segment base x alignment)
        let wide_form = (0..code.op_code().op_count()).any(|i| code.op_code().op_kind(i) == K::xmm_or_mem);
        let reps = if family == "fault" && wide_form { per_form * 4 } else { per_form };
        for n in 0..reps {
            // the fault family walks through class-specific extreme operands first (see memory_special)
            g.iter_hint = if family == "fault" { n / 2 } else { usize::MAX };
            let pad = g.rng.gen_range(0..4usize);
            let pad = match code.op_code().op_kind(0) {
                K::br64_1 => pad % 2,
                _ => pad,
            };
            match family {
                "data" | "flow" | "stack" => {
                    if family == "stack" && n % 3 == 2 {
                        // the slot at / across the edges of the stack area, in read-only and in unmapped memory
                        let k = g.rng.gen_range(0..10u64) * 2;
                        g.stack_edge = Some(match g.rng.gen_range(0..8) {
                            0..=2 => STK + 0x1000 - k,
                            3..=4 => STK + k,
                            5 => RO + 0x800 + (k & 8),
                            6 => RW1 + 0x1800,
                            _ => STK + 0x1000 - 8 * g.rng.gen_range(0..3u64),
                        });
                    }
                    if family != "data" && g.rng.gen_bool(0.25) {
                        g.next_drain = 2 + (g.rng.gen_range(0..4) == 0) as u8;
                    }
                    if g.rng.gen_bool(0.15) {
                        // code far above 4 GiB: next-RIP, direct branch targets and return addresses are 64-bit quantities
                        g.next_shift = [1u64 << 32, 1 << 33, 0x7ffe_0000_0000][g.rng.gen_range(0..3)];
                    }
                    let use_mem = has_mem && (!has_reg || n % 2 == 1);
                    let shape = MEM_SHAPES[g.rng.gen_range(0..MEM_SHAPES.len())];
                    // segment bases: now and then for data operands, often for the memory operands of control transfers and stack
                    // instructions (jmp fs:[..], push gs:[..]: few forms, and no other family reaches them)
                    let (pg, pf) = if family == "data" { (0.06, 0.03) } else { (0.15, 0.15) };
                    let seg = if g.rng.gen_bool(pg) { Register::GS } else if g.rng.gen_bool(pf) { Register::FS } else { Register::None };
                    // the 0x67 address-size prefix also outside the EA family (index-only and absolute forms wrap at 4 GiB)
                    let asz32 = family == "data" && use_mem && seg == Register::None && g.rng.gen_bool(0.08);
                    if let Some(c) = g.make(code, family, use_mem, shape, Place::Rw, asz32, seg, pad) {
                        out.push(c);
                    }
                }
                "ea" => {
                    let shape = MEM_SHAPES[n % MEM_SHAPES.len()];
                    let seg = match g.rng.gen_range(0..6) { 0 => Register::GS, 1 => Register::FS, _ => Register::None };
                    let asz32 = g.rng.gen_bool(0.2);
                    if let Some(c) = g.make(code, family, true, shape, Place::Rw, asz32, seg, pad) {
                        out.push(c);
                    }
                }
                "fault" => {
                    if g.rng.gen_bool(0.2) {
                        g.next_drain = 2; // a fault when ax's record of calls has been emptied by unmatched returns (error decoration)
                    }
                    let place = [Place::Rw, Place::Ro, Place::Hole, Place::Straddle, Place::LastFit, Place::Null, Place::Misalign][n % 7];
                    let shape = [MemShape::Base, MemShape::BaseDisp8, MemShape::BaseIndex, MemShape::Abs32][g.rng.gen_range(0..4)];
                    // alignment-checked 128-bit operands also behind FS / GS bases that are not 16-byte aligned
                    let wide = (0..code.op_code().op_count()).any(|i| code.op_code().op_kind(i) == K::xmm_or_mem);
                    let mut seg = if wide && has_mem && g.rng.gen_bool(0.5) { if g.rng.gen_bool(0.6) { Register::GS } else { Register::FS } } else { Register::None };
                    // the 32-bit address size together with a segment base (only the OFFSET wraps at 4 GiB, the base is added afterwards):
                    // with a base beyond 4 GiB the access lands far from every mapping and must fault
                    let mut asz32 = false;
                    if !wide && has_mem && g.rng.gen_bool(0.12) {
                        asz32 = true;
                        seg = if g.rng.gen_bool(0.5) { Register::GS } else { Register::FS };
                    }
                    if let Some(c) = g.make(code, family, has_mem, shape, place, asz32, seg, pad) {
                        out.push(c);
                    }
                }
                _ => {}
            }
        }
    }
    if family == "data" {
        boundary_sweep(g, forms, &mut out);
    }
    out
}

/// Deterministic boundary sweep (not sampled): every two-operand arithmetic / logic form with both operands drawn from the
/// boundary set of its width {0, 1, -1, MIN, MAX, MIN+1, -2} and both carry-in values - where carries, borrows and signed
/// overflow change.  Immediates are forced to the boundary values their field can hold.
fn boundary_sweep(g: &mut Gen, forms: &std::collections::HashMap<String, Vec<String>>, out: &mut Vec<Case>) {
    let mut names: Vec<&String> = forms.keys().collect();
    names.sort();
    for name in names {
        let code = match code_by_name(name) {
            Some(c) => c,
            None => continue,
        };
        let m = code.mnemonic();
        if !matches!(m, Mnemonic::Adc | Mnemonic::Add | Mnemonic::Sub | Mnemonic::Cmp | Mnemonic::And | Mnemonic::Xor | Mnemonic::Test) {
            continue;
        }
        let oc = code.op_code();
        if oc.op_count() != 2 {
            continue;
        }
        let shapes = &forms[name];
        let has_mem = shapes.iter().any(|s| s == "mem");
        let has_reg = shapes.iter().any(|s| s == "reg");
        let has_imm = matches!(oc.op_kind(1), K::imm8 | K::imm8sex16 | K::imm8sex32 | K::imm8sex64 | K::imm16 | K::imm32 | K::imm32sex64);
        // operand width from the first operand kind
        let w: u32 = match oc.op_kind(0) {
            K::r8_or_mem | K::r8_reg | K::al => 8,
            K::r16_or_mem | K::r16_reg | K::ax => 16,
            K::r32_or_mem | K::r32_reg | K::eax => 32,
            K::r64_or_mem | K::r64_reg | K::rax => 64,
            _ => continue,
        };
        let bs = boundaries(w);
        let mut n = 0usize;
        for &a in bs.iter() {
            for &b in bs.iter() {
                for cf in 0..2u64 {
                    if m != Mnemonic::Adc && cf == 1 && (a.wrapping_add(b)) % 3 != 0 {
                        continue; // the carry-in only matters for ADC: a third of the pairs for the others
                    }
                    n += 1;
                    let use_mem = has_mem && (!has_reg || n % 3 == 0);
                    if has_imm {
                        g.next_imm = Some(b as i64);
                    }
                    let shape = [MemShape::Base, MemShape::BaseDisp8, MemShape::Abs32][n % 3];
                    if let Some(mut c) = g.make(code, "data", use_mem, shape, Place::Rw, false, Register::None, 0) {
                        // distinct registers are needed to give both operands their values
                        let same = c.instr.op0_kind() == OpKind::Register && c.instr.op1_kind() == OpKind::Register
                            && c.instr.op0_register().full_register() == c.instr.op1_register().full_register();
                        let ea_uses = |c: &Case, r: Register| c.instr.memory_base().full_register() == r.full_register() || c.instr.memory_index().full_register() == r.full_register();
                        let clash = (c.instr.op0_kind() == OpKind::Register && c.shape != "reg" && ea_uses(&c, c.instr.op0_register()))
                            || (c.instr.op1_kind() == OpKind::Register && c.shape != "reg" && ea_uses(&c, c.instr.op1_register()));
                        if same || clash {
                            continue;
                        }
                        set_operand(&mut c, 0, a);
                        if !has_imm {
                            set_operand(&mut c, 1, b);
                        }
                        c.pre.fl = (c.pre.fl & !1) | cf;
                        c.shape = format!("{}/boundary", c.shape);
                        out.push(c);
                    }
                    g.next_imm = None;
                }
            }
        }
    }
}

/// probe which (code, reg|mem) forms execute on the current tree (used once to create spec/forms.json)
pub fn probe_forms(seed: u64) -> Value {
    let mut g = Gen::new(seed);
    let lay = Layout;
    let mut res = Map::new();
    for code in candidate_codes() {
        let mut shapes = Vec::new();
        for (name, use_mem) in [("reg", false), ("mem", true)] {
            let mut ok = 0;
            let mut tried = 0;
            for _ in 0..12 {
                if let Some(c) = g.make(code, class_of(code.mnemonic()), use_mem, MemShape::Base, Place::Rw, false, Register::None, 1) {
                    let is_mem = c.shape != "reg";
                    if is_mem != use_mem {
                        continue;
                    }
                    tried += 1;
                    // benign state: small divisor etc. are not arranged; count any Ok
                    let p = run_ax(&c, &lay);
                    if p.out == Outcome::Ok {
                        ok += 1;
                    }
                }
            }
            if tried > 0 && ok > 0 {
                shapes.push(json!(name));
            }
        }
        if !shapes.is_empty() {
            res.insert(format!("{code:?}"), Value::Array(shapes));
        }
    }
    Value::Object(res)
}

pub fn run_family(family: &str, per_form: usize, seed: u64, forms_path: &str, out_prefix: &str, native: bool) -> std::io::Result<()> {
    let forms = load_forms(forms_path);
    let mut g = Gen::new(seed);
    let cases = gen_family(&mut g, family, per_form, &forms);
    run_cases(&cases, out_prefix, native)
}

pub fn run_cases(cases: &[Case], out_prefix: &str, native: bool) -> std::io::Result<()> {
    let lay = Layout;
    let hw = if native { crate::native::run_all(cases, &lay) } else { vec![None; cases.len()] };
    let mut fa = std::io::BufWriter::new(std::fs::File::create(format!("{out_prefix}.ax.ndjson"))?);
    let mut fh = std::io::BufWriter::new(std::fs::File::create(format!("{out_prefix}.hw.ndjson"))?);
    let mut fm = std::io::BufWriter::new(std::fs::File::create(format!("{out_prefix}.meta.ndjson"))?);
    for (i, c) in cases.iter().enumerate() {
        let p = run_ax(c, &lay);
        writeln!(fa, "{}", event(c, &p, "ax"))?;
        writeln!(fm, "{}", meta(c, &p))?;
        if let Some(h) = &hw[i] {
            writeln!(fh, "{}", event(c, h, "hw"))?;
        }
    }
    fa.flush()?;
    fh.flush()?;
    fm.flush()
}
