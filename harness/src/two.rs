//! Two-run determinism with PARTIALLY written registers (property C20, spec/TwoRun.tla + Trace_Taint.tla).
//!
//! Each generated program (the generator of prog.rs) runs on two independently constructed machines that get the same
//! code, the same memory and the same explicitly written registers - but only a random SUBSET of the registers is
//! written; the others keep whatever the constructor's random generator left there (different in the two machines).
//! Per step the log carries the instruction's data-flow summary taken from iced's InstructionInfo (registers read,
//! registers written fully / partially or conditionally, flag bits read / modified, memory read / written) - not from
//! ax - and where the two machines differ.  The specification carries the taint set and demands agreement of
//! everything that does not depend on an unwritten register.

use crate::insn::{self, Gen, Layout, MemShape, Place, AREAS, CODE, STK};
use crate::prog::{gen_items, layout, mem_hash, observe, Obs};
use ax_x86::axecutor::Axecutor;
use iced_x86::{Code, Decoder, DecoderOptions, InstructionInfoFactory, OpAccess, Register, RflagsBits};
use rand::Rng;
use serde_json::json;
use std::io::Write;
use std::panic::{catch_unwind, AssertUnwindSafe};

fn machine(case: &insn::Case, start: u64, wr: &[bool; 16], wx: &[bool; 16]) -> Option<Axecutor> {
    let lay = Layout;
    let code_img = lay.image(&AREAS[0], case);
    let mut ax = Axecutor::new(&code_img, CODE, start).ok()?;
    for a in AREAS.iter().skip(1) {
        ax.mem_init_area(a.start, lay.image(a, case)).ok()?;
        ax.mem_prot(a.start, a.prot).ok()?;
    }
    for (i, name) in crate::interp::GPRS.iter().take(16).enumerate() {
        if wr[i] {
            ax.reg_write_64(crate::interp::reg_by_name(name).unwrap(), case.pre.regs[i]).ok()?;
        }
    }
    for i in 0..16 {
        if wx[i] {
            ax.reg_write_128(crate::interp::reg_by_name(&format!("XMM{i}")).unwrap(), case.pre.xmm[i]).ok()?;
        }
    }
    Some(ax)
}

fn flag_names(bits: u32) -> Vec<&'static str> {
    let mut v = Vec::new();
    for (b, n) in [(RflagsBits::CF, "f_cf"), (RflagsBits::PF, "f_pf"), (RflagsBits::AF, "f_af"), (RflagsBits::ZF, "f_zf"), (RflagsBits::SF, "f_sf"),
                   (RflagsBits::DF, "f_df"), (RflagsBits::OF, "f_of")] {
        if bits & b != 0 {
            v.push(n);
        }
    }
    v
}

fn loc_name(r: Register) -> Option<String> {
    if r.is_xmm() {
        return Some(format!("XMM{}", r.number()));
    }
    if r == Register::RIP || r == Register::EIP || r.is_segment_register() || r == Register::None {
        return None; // RIP is compared separately; segment bases are explicit inputs (never written here: constructor default)
    }
    let f = r.full_register();
    insn::GPR64.iter().position(|x| *x == f).map(|ix| crate::interp::GPRS[ix].to_string())
}

struct Side {
    out: &'static str,
    err: String,
    o: Obs,
}

fn step_side(ax: &mut Axecutor) -> Side {
    let r = catch_unwind(AssertUnwindSafe(|| async_std::task::block_on(ax.step())));
    let (out, err) = match r {
        Ok(Ok(_)) => ("ok", String::new()),
        Ok(Err(e)) => ("err", e.to_string()),
        Err(_) => ("crash", String::new()),
    };
    Side { out, err, o: observe(ax) }
}

pub fn run(n_programs: usize, len: usize, seed: u64, forms_path: &str, out: &str) -> std::io::Result<()> {
    let forms = insn::load_forms(forms_path);
    let mut g = Gen::new(seed);
    let mut f = std::io::BufWriter::new(std::fs::File::create(out)?);
    let end = CODE + 0x1000;
    let cap = len * 4 + 8;
    let mut made = 0;
    let mut tries = 0;
    let mut fac = InstructionInfoFactory::new();
    while made < n_programs && tries < n_programs * 5 {
        tries += 1;
        crate::interp::PROGRESS.fetch_add(1, std::sync::atomic::Ordering::Relaxed); // the watchdog looks for a hang inside ONE program
        let mut items = gen_items(&mut g, &forms, len);
        let (start, bytes, _addrs) = match layout(&mut items, end) {
            Some(x) => x,
            None => continue,
        };
        let base = g.make(Code::Nopd, "two", false, MemShape::Base, Place::Rw, false, Register::None, 0).expect("nop");
        let mut case = base.clone();
        case.pre.ov.clear();
        case.pre.ov.push((start, bytes.clone()));
        case.pre.rip = start;
        case.pre.regs[6] = STK + 0x800;
        case.bytes = bytes.clone();
        // which registers are written explicitly
        let mut wr = [false; 16];
        let mut wx = [false; 16];
        if g.rng.gen_bool(0.5) {
            // exactly the registers some instruction of the program READS are written (static linear decode): every input of
            // every step is explicit, every register the program never reads is left to the constructor's random generator
            let mut d = Decoder::with_ip(64, &bytes, start, DecoderOptions::NONE);
            while d.can_decode() {
                let ins = d.decode();
                let info = fac.info(&ins);
                for u in info.used_registers() {
                    if matches!(u.access(), OpAccess::Read | OpAccess::CondRead | OpAccess::ReadWrite | OpAccess::ReadCondWrite) {
                        let r = u.register();
                        if r.is_xmm() {
                            wx[r.number()] = true;
                        } else if let Some(ix) = insn::GPR64.iter().position(|x| *x == r.full_register()) {
                            wr[ix] = true;
                        }
                    }
                }
            }
            // (RSP only if the program reads it: stack instructions do)
        } else {
            let p = [0.1, 0.4, 0.8][g.rng.gen_range(0..3)];
            for i in 0..16 {
                wr[i] = if i == 6 { g.rng.gen_bool(0.7) } else { g.rng.gen_bool(p) };
                wx[i] = g.rng.gen_bool(p);
            }
        }
        let (mut a, mut b) = match (machine(&case, start, &wr, &wx), machine(&case, start, &wr, &wx)) {
            (Some(a), Some(b)) => (a, b),
            _ => continue,
        };
        let mut unwritten: Vec<String> = Vec::new();
        for i in 0..16 {
            if !wr[i] {
                unwritten.push(crate::interp::GPRS[i].to_string());
            }
            if !wx[i] {
                unwritten.push(format!("XMM{i}"));
            }
        }
        writeln!(f, "{}", json!({"ev": "reset", "c": made, "unwritten": unwritten, "memeq": mem_hash(&a) == mem_hash(&b),
                                 "fleq": a.verif_rflags() == b.verif_rflags(), "program": bytes, "start": start,
                                 "written": case.pre.regs.iter().enumerate().filter(|(i, _)| wr[*i]).map(|(i, v)| json!([crate::interp::GPRS[i], v])).collect::<Vec<_>>()}))?;
        for n in 0..cap {
            let (ra, rb) = (observe(&a).rip, observe(&b).rip);
            if ra != rb || ra < start || ra >= end {
                break;
            }
            let off = (ra - start) as usize;
            let mut d = Decoder::with_ip(64, &bytes[off..], ra, DecoderOptions::NONE);
            let ins = d.decode();
            let info = fac.info(&ins);
            let mut reads: Vec<String> = Vec::new();
            let mut wfull: Vec<String> = Vec::new();
            let mut wpart: Vec<String> = Vec::new();
            for u in info.used_registers() {
                let name = match loc_name(u.register()) {
                    Some(n) => n,
                    None => continue,
                };
                let full_width = u.register().is_xmm() || u.register().size() >= 4; // 32-bit writes zero-extend
                match u.access() {
                    OpAccess::Read | OpAccess::CondRead => reads.push(name),
                    OpAccess::Write => {
                        if full_width { wfull.push(name) } else { wpart.push(name) }
                    }
                    OpAccess::CondWrite => wpart.push(name),
                    OpAccess::ReadWrite | OpAccess::ReadCondWrite => {
                        reads.push(name.clone());
                        wpart.push(name);
                    }
                    _ => {}
                }
            }
            let mut mr = false;
            let mut mw = false;
            for m in info.used_memory() {
                match m.access() {
                    OpAccess::Read | OpAccess::CondRead => mr = true,
                    OpAccess::Write | OpAccess::CondWrite => mw = true,
                    OpAccess::ReadWrite | OpAccess::ReadCondWrite => {
                        mr = true;
                        mw = true;
                    }
                    _ => {}
                }
            }
            for n in flag_names(ins.rflags_read()) {
                reads.push(n.to_string());
            }
            // flag bits the instruction DEFINES (a function of its inputs) vs. bits it may leave as they were: architecturally
            // undefined bits, and all flags of shifts / rotates (a masked count of 0 affects no flag)
            use iced_x86::Mnemonic as M;
            let countdep = matches!(ins.mnemonic(), M::Shl | M::Shr | M::Sar | M::Sal | M::Rol | M::Ror | M::Rcl | M::Rcr | M::Shld | M::Shrd);
            let defined = ins.rflags_written() | ins.rflags_cleared() | ins.rflags_set();
            let fw: Vec<&str> = if countdep { Vec::new() } else { flag_names(defined & !ins.rflags_undefined()) };
            let fu: Vec<&str> = if countdep { flag_names(ins.rflags_modified()) } else { flag_names(ins.rflags_undefined()) };
            let tw = ins.flow_control() != iced_x86::FlowControl::Next;
            let sa = step_side(&mut a);
            let sb = step_side(&mut b);
            let mut neq: Vec<String> = Vec::new();
            for i in 0..16 {
                if sa.o.regs[i] != sb.o.regs[i] {
                    neq.push(crate::interp::GPRS[i].to_string());
                }
                if sa.o.xmm[i] != sb.o.xmm[i] {
                    neq.push(format!("XMM{i}"));
                }
            }
            for (bit, name) in [(0x1u64, "f_cf"), (0x4, "f_pf"), (0x10, "f_af"), (0x40, "f_zf"), (0x80, "f_sf"), (0x400, "f_df"), (0x800, "f_of")] {
                if (sa.o.fl & bit) != (sb.o.fl & bit) {
                    neq.push(name.to_string());
                }
            }
            let cut = |s: &str| -> String { s.chars().take(3000).collect() };
            writeln!(f, "{}", json!({"ev": "step", "c": made, "n": n, "code": format!("{:?}", ins.code()), "text": format!("{}", ins),
                "reads": reads, "wfull": wfull, "wpart": wpart, "fw": fw, "fu": fu, "mr": mr, "mw": mw, "tw": tw,
                "outa": sa.out, "outb": sb.out, "erreq": sa.err == sb.err, "ripeq": sa.o.rip == sb.o.rip, "counteq": sa.o.count == sb.o.count,
                "fineq": sa.o.finished == sb.o.finished, "memeq": sa.o.mh == sb.o.mh, "traceeq": sa.o.trace == sb.o.trace, "neq": neq,
                "erra": cut(&sa.err), "errb": cut(&sb.err)}))?;
            if sa.out != "ok" || sb.out != "ok" || sa.o.finished || sb.o.finished {
                break;
            }
        }
        made += 1;
    }
    f.flush()
}
