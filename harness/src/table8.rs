//! spec -> impl for the 8-bit operand space: every 8-bit form/shape of the implementation is run for ALL operand
//! values against the result tables TLC printed from spec/X86.tla (MC_Table8).

use ax_x86::axecutor::Axecutor;
use iced_x86::{Code, Encoder, Instruction, MemoryOperand, Register};
use serde_json::{json, Value};
use std::collections::HashMap;
use std::io::{BufRead, Write};

const CODE: u64 = 0x10_0000;
const DATA: u64 = 0x20_0000;

#[derive(Clone, Copy, Default)]
struct Entry {
    r: u16,
    f: [u8; 5], // cf pf zf sf of : 0/1 defined value, 2 undefined, 3 unaffected
}

struct Tables {
    two: HashMap<String, Vec<Entry>>,  // [a][b][c]
    one: HashMap<String, Vec<Entry>>,  // [a][c]
    sh: HashMap<String, Vec<Entry>>,   // [a][n]
    mul: HashMap<String, Vec<Entry>>,  // [a][b]
}

fn entry(v: &Value) -> Entry {
    let f = &v["f"];
    Entry {
        r: v["r"].as_u64().unwrap_or(0) as u16,
        f: [f["cf"].as_u64().unwrap_or(9) as u8, f["pf"].as_u64().unwrap_or(9) as u8, f["zf"].as_u64().unwrap_or(9) as u8,
            f["sf"].as_u64().unwrap_or(9) as u8, f["of"].as_u64().unwrap_or(9) as u8],
    }
}

fn load(path: &str) -> std::io::Result<Tables> {
    let mut t = Tables { two: HashMap::new(), one: HashMap::new(), sh: HashMap::new(), mul: HashMap::new() };
    let f = std::io::BufReader::new(std::fs::File::open(path)?);
    for line in f.lines() {
        let v: Value = serde_json::from_str(&line?).map_err(|e| std::io::Error::new(std::io::ErrorKind::Other, e.to_string()))?;
        let cls = v["cls"].as_str().unwrap_or("").to_string();
        let a = v["a"].as_u64().unwrap_or(0) as usize;
        let row = &v["row"];
        match cls.as_str() {
            "add" | "adc" | "sub" | "cmp" | "and" | "xor" | "test" => {
                let tab = t.two.entry(cls).or_insert_with(|| vec![Entry::default(); 256 * 256 * 2]);
                for b in 0..256 {
                    for c in 0..2 {
                        tab[(a * 256 + b) * 2 + c] = entry(&row[b.to_string()][c.to_string()]);
                    }
                }
            }
            "inc" | "dec" | "neg" | "not" => {
                let tab = t.one.entry(cls).or_insert_with(|| vec![Entry::default(); 256 * 2]);
                for c in 0..2 {
                    tab[a * 2 + c] = entry(&row[c.to_string()]);
                }
            }
            "shl" | "shr" => {
                let tab = t.sh.entry(cls).or_insert_with(|| vec![Entry::default(); 256 * 256]);
                for n in 0..256 {
                    tab[a * 256 + n] = entry(&row[n.to_string()]);
                }
            }
            _ => {
                let tab = t.mul.entry(cls).or_insert_with(|| vec![Entry::default(); 256 * 256]);
                for b in 0..256 {
                    tab[a * 256 + b] = entry(&row[b.to_string()]);
                }
            }
        }
    }
    Ok(t)
}

fn gpr_ix(r: Register) -> usize {
    crate::insn::GPR64.iter().position(|x| *x == r.full_register()).unwrap()
}
fn set8(regs: &mut [u64; 16], r: Register, v: u8) {
    let ix = gpr_ix(r);
    if matches!(r, Register::AH | Register::BH | Register::CH | Register::DH) {
        regs[ix] = (regs[ix] & !0xff00) | ((v as u64) << 8);
    } else {
        regs[ix] = (regs[ix] & !0xff) | v as u64;
    }
}
fn get8(regs: &[u64; 16], r: Register) -> u8 {
    let ix = gpr_ix(r);
    if matches!(r, Register::AH | Register::BH | Register::CH | Register::DH) { (regs[ix] >> 8) as u8 } else { regs[ix] as u8 }
}

#[derive(Clone)]
struct Variant {
    code: Code,
    name: String,
    dst: Option<Register>, // register destination (None: memory at DATA+0x40)
    src: Option<Register>, // register source (None: memory / immediate / implicit)
    src_mem: bool,
    imm: bool,
    cl: bool,
}

const FLBITS: [u64; 5] = [0x1, 0x4, 0x40, 0x80, 0x800];

struct Machine {
    bytes: Vec<u8>,
    ax: Axecutor,
}

fn gprs() -> &'static Vec<ax_x86::state::registers::SupportedRegister> {
    static G: std::sync::OnceLock<Vec<ax_x86::state::registers::SupportedRegister>> = std::sync::OnceLock::new();
    G.get_or_init(|| crate::interp::GPRS.iter().take(16).map(|n| crate::interp::reg_by_name(n).unwrap()).collect())
}

/// one step on a machine that is reused as long as the instruction bytes stay the same (every register, the flags, the
/// memory operand byte and RIP are rewritten before each step)
fn run_one(cache: &mut Option<Machine>, bytes: &[u8], regs: &[u64; 16], fl: u64, mem: u8) -> Option<([u64; 16], u64, u8, u64)> {
    let fresh = match cache {
        Some(m) => m.bytes != bytes,
        None => true,
    };
    if fresh {
        let mut code = bytes.to_vec();
        code.extend_from_slice(&[0x90; 8]);
        let mut ax = Axecutor::new(&code, CODE, CODE).ok()?;
        ax.mem_init_area(DATA, vec![0x5au8; 0x100]).ok()?;
        *cache = Some(Machine { bytes: bytes.to_vec(), ax });
    }
    let ax = &mut cache.as_mut().unwrap().ax;
    for (i, r) in gprs().iter().enumerate() {
        ax.reg_write_64(*r, regs[i]).ok()?;
    }
    ax.reg_write_64(ax_x86::state::registers::SupportedRegister::RIP, CODE).ok()?;
    ax.mem_write_8(DATA + 0x40, mem as u64).ok()?;
    ax.verif_set_rflags(fl);
    let r = std::panic::catch_unwind(std::panic::AssertUnwindSafe(|| async_std::task::block_on(ax.step())));
    match r {
        Ok(Ok(_)) => {}
        _ => {
            *cache = None;
            return None;
        }
    }
    let ax = &mut cache.as_mut().unwrap().ax;
    let mut out = [0u64; 16];
    for (i, r) in gprs().iter().enumerate() {
        out[i] = ax.reg_read_64(*r).unwrap_or(0);
    }
    let m = ax.mem_read_8(DATA + 0x40).unwrap_or(0) as u8;
    let rip = ax.reg_read_64(ax_x86::state::registers::SupportedRegister::RIP).unwrap_or(0);
    Some((out, ax.verif_rflags(), m, rip))
}

pub fn run(table_path: &str, forms_path: &str, out_path: &str, threads: usize) -> std::io::Result<()> {
    let t = std::sync::Arc::new(load(table_path)?);
    let forms = crate::insn::load_forms(forms_path);
    // enumerate 8-bit variants
    let mut vars: Vec<Variant> = Vec::new();
    let pairs = [(Register::AL, Register::BL), (Register::CH, Register::DL), (Register::SIL, Register::R9L), (Register::R12L, Register::BPL), (Register::DL, Register::AH)];
    for code in Code::values() {
        let name = format!("{code:?}");
        let shapes = match forms.get(&name) {
            Some(s) => s.clone(),
            None => continue,
        };
        let m = format!("{:?}", code.mnemonic()).to_lowercase();
        let is = |suffix: &str| name.ends_with(suffix);
        let has = |s: &str| shapes.iter().any(|x| x == s);
        if !["add", "adc", "sub", "cmp", "and", "xor", "test", "inc", "dec", "neg", "not", "shl", "shr", "mul", "imul"].contains(&m.as_str()) {
            continue;
        }
        if is("_rm8_r8") {
            for (d, s) in pairs.iter() {
                if has("reg") { vars.push(Variant { code, name: name.clone(), dst: Some(*d), src: Some(*s), src_mem: false, imm: false, cl: false }); }
            }
            if has("mem") { vars.push(Variant { code, name: name.clone(), dst: None, src: Some(Register::BL), src_mem: false, imm: false, cl: false });
                            vars.push(Variant { code, name: name.clone(), dst: None, src: Some(Register::R10L), src_mem: false, imm: false, cl: false }); }
        } else if is("_r8_rm8") {
            for (d, s) in pairs.iter() {
                if has("reg") { vars.push(Variant { code, name: name.clone(), dst: Some(*d), src: Some(*s), src_mem: false, imm: false, cl: false }); }
            }
            if has("mem") { vars.push(Variant { code, name: name.clone(), dst: Some(Register::CL), src: None, src_mem: true, imm: false, cl: false }); }
        } else if is("_AL_imm8") {
            vars.push(Variant { code, name: name.clone(), dst: Some(Register::AL), src: None, src_mem: false, imm: true, cl: false });
        } else if is("_rm8_imm8") || is("_rm8_imm8_82") {
            if ["shl", "shr"].contains(&m.as_str()) || ["add", "adc", "sub", "cmp", "and", "xor", "test"].contains(&m.as_str()) {
                if has("reg") { vars.push(Variant { code, name: name.clone(), dst: Some(Register::DH), src: None, src_mem: false, imm: true, cl: false });
                                vars.push(Variant { code, name: name.clone(), dst: Some(Register::R11L), src: None, src_mem: false, imm: true, cl: false }); }
                if has("mem") { vars.push(Variant { code, name: name.clone(), dst: None, src: None, src_mem: false, imm: true, cl: false }); }
            }
        } else if is("_rm8_CL") {
            if has("reg") { vars.push(Variant { code, name: name.clone(), dst: Some(Register::BL), src: None, src_mem: false, imm: false, cl: true }); }
            if has("mem") { vars.push(Variant { code, name: name.clone(), dst: None, src: None, src_mem: false, imm: false, cl: true }); }
        } else if is("_rm8_1") {
            if has("reg") { vars.push(Variant { code, name: name.clone(), dst: Some(Register::AH), src: None, src_mem: false, imm: true, cl: false }); }
        } else if is("_rm8") {
            // one-operand forms: inc/dec/neg/not r/m8, mul/imul r/m8
            if ["mul", "imul"].contains(&m.as_str()) {
                if has("reg") { vars.push(Variant { code, name: name.clone(), dst: None, src: Some(Register::BL), src_mem: false, imm: false, cl: false });
                                vars.push(Variant { code, name: name.clone(), dst: None, src: Some(Register::R13L), src_mem: false, imm: false, cl: false }); }
                if has("mem") { vars.push(Variant { code, name: name.clone(), dst: None, src: None, src_mem: true, imm: false, cl: false }); }
            } else {
                if has("reg") { vars.push(Variant { code, name: name.clone(), dst: Some(Register::CH), src: None, src_mem: false, imm: false, cl: false });
                                vars.push(Variant { code, name: name.clone(), dst: Some(Register::R14L), src: None, src_mem: false, imm: false, cl: false }); }
                if has("mem") { vars.push(Variant { code, name: name.clone(), dst: None, src: None, src_mem: false, imm: false, cl: false }); }
            }
        }
    }
    let vars = std::sync::Arc::new(vars);
    let next = std::sync::Arc::new(std::sync::atomic::AtomicUsize::new(0));
    let results = std::sync::Arc::new(std::sync::Mutex::new(Vec::<Value>::new()));
    let mut hs = Vec::new();
    for _ in 0..threads.max(1) {
        let (t, vars, next, results) = (t.clone(), vars.clone(), next.clone(), results.clone());
        hs.push(std::thread::spawn(move || loop {
            let k = next.fetch_add(1, std::sync::atomic::Ordering::Relaxed);
            if k >= vars.len() {
                break;
            }
            let v = &vars[k];
            let r = check_variant(v, &t);
            results.lock().unwrap().push(r);
        }));
    }
    for h in hs {
        let _ = h.join();
    }
    let mut f = std::io::BufWriter::new(std::fs::File::create(out_path)?);
    for r in results.lock().unwrap().iter() {
        writeln!(f, "{r}")?;
    }
    f.flush()
}

fn check_variant(v: &Variant, t: &Tables) -> Value {
    let m = format!("{:?}", v.code.mnemonic()).to_lowercase();
    let mem = MemoryOperand::with_base_displ(Register::RSI, 0x40);
    let mut cases = 0u64;
    let mut cache: Option<Machine> = None;
    let mut bad: Vec<Value> = Vec::new();
    let mut nbad = 0u64;
    let one_op = ["inc", "dec", "neg", "not"].contains(&m.as_str());
    let shift = ["shl", "shr"].contains(&m.as_str());
    let mul = ["mul", "imul"].contains(&m.as_str());
    let brange: Vec<u16> = if one_op { vec![0] } else { (0..256).collect() };
    for a in 0..256u16 {
        for &b in brange.iter() {
            // instruction (immediates are part of the encoding)
            let instr = if mul {
                match v.src { Some(s) => Instruction::with1(v.code, s), None => Instruction::with1(v.code, mem) }
            } else if one_op {
                match v.dst { Some(d) => Instruction::with1(v.code, d), None => Instruction::with1(v.code, mem) }
            } else if v.imm {
                let iv = if v.name.ends_with("_1") { 1 } else { b as i32 };
                match v.dst { Some(d) => Instruction::with2(v.code, d, iv), None => Instruction::with2(v.code, mem, iv) }
            } else if v.cl {
                match v.dst { Some(d) => Instruction::with2(v.code, d, Register::CL), None => Instruction::with2(v.code, mem, Register::CL) }
            } else if v.src_mem {
                Instruction::with2(v.code, v.dst.unwrap(), mem)
            } else {
                match v.dst { Some(d) => Instruction::with2(v.code, d, v.src.unwrap()), None => Instruction::with2(v.code, mem, v.src.unwrap()) }
            };
            let instr = match instr { Ok(i) => i, Err(_) => return json!({"code": v.name, "error": "cannot construct"}) };
            let mut enc = Encoder::new(64);
            if enc.encode(&instr, CODE).is_err() {
                return json!({"code": v.name, "error": "cannot encode"});
            }
            let bytes = enc.take_buffer();
            if v.name.ends_with("_1") && b != 1 {
                continue;
            }
            for c in 0..2u64 {
                if (shift || mul || m == "not") && c == 1 && !["adc"].contains(&m.as_str()) && !one_op {
                    continue;
                }
                let mut regs = [0x1111_2222_3333_4400u64; 16];
                for (i, r) in regs.iter_mut().enumerate() {
                    *r = r.wrapping_add(0x0101_0101_0101_0101u64.wrapping_mul(i as u64));
                }
                regs[4] = 0x20_0000; // RSI -> data page
                let mut memv = 0x5au8;
                // operands
                if mul {
                    set8(&mut regs, Register::AL, a as u8);
                    match v.src { Some(s) => set8(&mut regs, s, b as u8), None => memv = b as u8 }
                    if v.src.map(|s| gpr_ix(s) == 0).unwrap_or(false) { continue; }
                } else {
                    match v.dst { Some(d) => set8(&mut regs, d, a as u8), None => memv = a as u8 }
                    if v.cl { set8(&mut regs, Register::CL, b as u8); }
                    else if v.src_mem { memv = b as u8; }
                    else if let Some(s) = v.src { set8(&mut regs, s, b as u8); }
                    // dst and src in the same full register would overwrite each other
                    if let (Some(d), Some(s)) = (v.dst, v.src) { if d == s { continue; } }
                    if v.cl && v.dst == Some(Register::CL) { continue; }
                }
                // incoming flags: CF = c, the others set so that "unaffected" is observable
                let pre_fl = c | 0x4 | 0x80 | 0x800;
                cases += 1;
                let want = if mul { t.mul[&m][(a as usize) * 256 + b as usize] }
                           else if one_op { t.one[&m][(a as usize) * 2 + c as usize] }
                           else if shift { t.sh[&m][(a as usize) * 256 + if v.name.ends_with("_1") { 1 } else { b as usize }] }
                           else { t.two[&m][((a as usize) * 256 + b as usize) * 2 + c as usize] };
                let got = run_one(&mut cache, &bytes, &regs, pre_fl, memv);
                let mut why = Vec::new();
                match got {
                    None => why.push("step failed".to_string()),
                    Some((oregs, ofl, omem, orip)) => {
                        // value
                        let gotv: u16 = if mul { (oregs[0] & 0xffff) as u16 } else { match v.dst { Some(d) => get8(&oregs, d) as u16, None => omem as u16 } };
                        let wantv = if mul { want.r } else { want.r & 0xff };
                        if ["cmp", "test"].contains(&m.as_str()) {
                            // no write-back: destination keeps its value
                            let keep = match v.dst { Some(d) => get8(&oregs, d) as u16, None => omem as u16 };
                            if keep != a { why.push(format!("destination changed to {keep:#x}")); }
                        } else if gotv != wantv {
                            why.push(format!("value {gotv:#x} want {wantv:#x}"));
                        }
                        for (k, bit) in FLBITS.iter().enumerate() {
                            let g = if ofl & bit != 0 { 1 } else { 0 };
                            match want.f[k] {
                                0 | 1 => if g != want.f[k] { why.push(format!("{} = {g} want {}", ["cf", "pf", "zf", "sf", "of"][k], want.f[k])); },
                                3 => if g != (if pre_fl & bit != 0 { 1 } else { 0 }) { why.push(format!("{} changed (unaffected)", ["cf", "pf", "zf", "sf", "of"][k])); },
                                _ => {}
                            }
                        }
                        // everything else untouched
                        let mut exp = regs;
                        if mul { exp[0] = (exp[0] & !0xffff) | want.r as u64; }
                        else if !["cmp", "test"].contains(&m.as_str()) { if let Some(d) = v.dst { set8(&mut exp, d, (want.r & 0xff) as u8); } }
                        if exp != oregs && why.is_empty() { why.push("another register changed".to_string()); }
                        if orip != CODE + bytes.len() as u64 { why.push("rip".to_string()); }
                        if v.dst.is_some() && !v.src_mem && !(mul && v.src.is_none()) && omem != memv { why.push("memory changed".to_string()); }
                    }
                }
                if !why.is_empty() {
                    nbad += 1;
                    if bad.len() < 5 {
                        bad.push(json!({"a": a, "b": b, "cf_in": c, "bytes": bytes, "why": why}));
                    }
                }
            }
        }
    }
    json!({"code": v.name, "dst": v.dst.map(|r| format!("{r:?}")), "src": v.src.map(|r| format!("{r:?}")), "src_mem": v.src_mem, "imm": v.imm, "cl": v.cl,
           "cases": cases, "mismatches": nbad, "samples": bad})
}
