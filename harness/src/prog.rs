//! Whole programs over the implemented instruction forms, run step by step on the real Axecutor and logged for
//! validation against the composed machine (spec/Trace_Prog.tla: X86.tla + Exec.tla with carried state).
//!
//! A program is a sequence of groups: optional `mov r64, imm64` address set-up + one instruction drawn from
//! spec/forms.json (register and memory shapes, stack instructions on a valid stack, forward jumps / conditional
//! jumps / calls).  It is placed so that it ends exactly at the end of the code area (reaching it finishes execution).

use crate::insn::{self, Gen, Layout, MemShape, Place, AREAS, CODE, STK};
use ax_x86::axecutor::Axecutor;
use iced_x86::{Code, Decoder, DecoderOptions, Encoder, Instruction, Mnemonic, Register};
use rand::Rng;
use serde_json::{json, Map, Value};
use std::io::Write;
use std::panic::{catch_unwind, AssertUnwindSafe};

pub(crate) struct Item {
    instr: Instruction,
    branch_to: Option<usize>, // index of the target item (len = program end)
    label: usize,             // != 0: a loop head
    back_to: usize,           // != 0: branch back to the item carrying this label
}

fn code_by_name(name: &str) -> Option<Code> {
    Code::values().find(|c| format!("{c:?}") == name)
}

pub(crate) fn gen_items(g: &mut Gen, forms: &std::collections::HashMap<String, Vec<String>>, n: usize) -> Vec<Item> {
    let mut names: Vec<&String> = forms.keys().collect();
    names.sort();
    let mut items: Vec<Item> = Vec::new();
    let mut guard = 0;
    while items.len() < n && guard < n * 20 {
        guard += 1;
        let name = names[g.rng.gen_range(0..names.len())];
        let code = match code_by_name(name) {
            Some(c) => c,
            None => continue,
        };
        let m = code.mnemonic();
        let shapes = &forms[name];
        let has_mem = shapes.iter().any(|s| s == "mem");
        let has_reg = shapes.iter().any(|s| s == "reg");
        match insn::class_of(m) {
            "flow" => {
                // forward transfers only (programs terminate); ret / indirect forms are left to the single-step families
                if matches!(m, Mnemonic::Ret | Mnemonic::Call) {
                    continue;
                }
                let oc = code.op_code();
                if oc.op_count() != 1 || !matches!(oc.op_kind(0), iced_x86::OpCodeOperandKind::br64_1 | iced_x86::OpCodeOperandKind::br64_4) {
                    continue;
                }
                if let Ok(i) = Instruction::with_branch(code, 0) {
                    items.push(Item { instr: i, branch_to: Some(usize::MAX), label: 0, back_to: 0 });
                }
            }
            _ => {
                let use_mem = has_mem && (!has_reg || g.rng.gen_bool(0.4));
                let shape = [MemShape::Base, MemShape::BaseDisp8, MemShape::BaseDisp32, MemShape::BaseIndex, MemShape::BaseIndexDisp8, MemShape::Abs32, MemShape::RipRel]
                    [g.rng.gen_range(0..7)];
                // mostly mapped read-write operands; now and then one that faults in the middle of the program (read-only, running over
                // the end of its area, unmapped): an error-ended run must look the same through step() and execute()
                let place = match g.rng.gen_range(0..40) {
                    0 => Place::Ro,
                    1 => Place::Straddle,
                    2 => Place::Hole,
                    3 => Place::LastFit,
                    _ => Place::Rw,
                };
                if let Some(c) = g.make(code, "prog", use_mem, shape, place, false, Register::None, 0) {
                    if use_mem && c.shape != "reg" {
                        // address set-up: load the registers the operand uses with the values the generator planned
                        let base = c.instr.memory_base();
                        let index = c.instr.memory_index();
                        for r in [base, index] {
                            if r != Register::None && r != Register::RIP && r.is_gpr64() {
                                let ix = insn::GPR64.iter().position(|x| *x == r).unwrap();
                                if r == Register::RSP {
                                    continue;
                                }
                                if let Ok(mv) = Instruction::with2(Code::Mov_r64_imm64, r, c.pre.regs[ix]) {
                                    items.push(Item { instr: mv, branch_to: None, label: 0, back_to: 0 });
                                }
                            }
                        }
                        if base == Register::RSP || index == Register::RSP {
                            continue;
                        }
                    }
                    // RIP-relative operands depend on the final address: re-made at layout time is not possible, skip them
                    if c.instr.is_ip_rel_memory_operand() {
                        continue;
                    }
                    items.push(Item { instr: c.instr, branch_to: None, label: 0, back_to: 0 });
                }
            }
        }
    }
    // a function: main ... call f ... jmp END ; f: ... ret   (ret pops what the call pushed: C04 "live slots survive calls",
    // C18 levels; other branches may still jump into the body - every step is judged in the state it really runs in)
    if items.len() >= 5 && g.rng.gen_bool(0.35) {
        let k = g.rng.gen_range(2..items.len() - 1);
        if let (Ok(jmp), Ok(call), Ok(ret)) = (
            Instruction::with_branch(Code::Jmp_rel32_64, 0),
            Instruction::with_branch(Code::Call_rel32_64, 0),
            Ok::<Instruction, iced_x86::IcedError>(Instruction::with(Code::Retnq)),
        ) {
            items[k].label = 2;
            items.push(Item { instr: ret, branch_to: None, label: 0, back_to: 0 });
            items.insert(k, Item { instr: jmp, branch_to: Some(usize::MAX), label: 0, back_to: usize::MAX });
            let c = g.rng.gen_range(0..k);
            items.insert(c, Item { instr: call, branch_to: Some(usize::MAX), label: 0, back_to: 2 });
            if g.rng.gen_bool(0.3) {
                // a second call site
                let c2 = g.rng.gen_range(0..=k);
                if let Ok(call2) = Instruction::with_branch(Code::Call_rel32_64, 0) {
                    items.insert(c2, Item { instr: call2, branch_to: Some(usize::MAX), label: 0, back_to: 2 });
                }
            }
        }
    }
    // a counted loop around a few items: mov ecx, k ; head: ... ; dec ecx ; jne head  (the body may clobber ECX: runs are capped)
    if items.len() >= 4 && g.rng.gen_bool(0.4) {
        let i = g.rng.gen_range(0..items.len() - 2);
        let j = (i + g.rng.gen_range(1..4)).min(items.len() - 1);
        let k = g.rng.gen_range(2..5u32);
        if let (Ok(mv), Ok(dec), Ok(jne)) = (
            Instruction::with2(Code::Mov_r32_imm32, Register::ECX, k),
            Instruction::with1(Code::Dec_rm32, Register::ECX),
            Instruction::with_branch(Code::Jne_rel8_64, 0),
        ) {
          if items[i].label == 0 {
            items[i].label = 1;
            items.insert(j + 1, Item { instr: jne, branch_to: Some(usize::MAX), label: 0, back_to: 1 });
            items.insert(j + 1, Item { instr: dec, branch_to: None, label: 0, back_to: 0 });
            items.insert(i, Item { instr: mv, branch_to: None, label: 0, back_to: 0 });
          }
        }
    }
    // resolve branch targets: a later item or the program end (loop back-edges: the labelled head)
    let total = items.len();
    for k in 0..total {
        if items[k].back_to == usize::MAX {
            items[k].branch_to = Some(total); // jump to the end of the program
        } else if items[k].back_to != 0 {
            let lab = items[k].back_to;
            items[k].branch_to = items.iter().position(|x| x.label == lab);
        } else if items[k].branch_to.is_some() {
            items[k].branch_to = Some(g.rng.gen_range(k + 1..=total));
        }
    }
    items
}

/// lay the program out so that it ends at `end`; returns (start, bytes, instruction start addresses)
pub(crate) fn layout(items: &mut [Item], end: u64) -> Option<(u64, Vec<u8>, Vec<u64>)> {
    // lengths do not depend on the address for the forms used (rel8/rel32 are fixed by the Code; no RIP-relative operands)
    let mut lens = Vec::new();
    for it in items.iter() {
        let mut e = Encoder::new(64);
        let mut i = it.instr;
        if it.branch_to.is_some() {
            i.set_near_branch64(0x1000);
            lens.push(e.encode(&i, 0x1000).ok()?);
        } else {
            lens.push(e.encode(&i, 0x1000).ok()?);
        }
    }
    let total: usize = lens.iter().sum();
    if total > 0x700 {
        return None;
    }
    let start = end - total as u64;
    let mut addrs = Vec::new();
    let mut a = start;
    for l in lens.iter() {
        addrs.push(a);
        a += *l as u64;
    }
    addrs.push(end);
    let mut bytes = Vec::new();
    for (k, it) in items.iter_mut().enumerate() {
        if let Some(t) = it.branch_to {
            let target = addrs[t];
            let next = addrs[k] + lens[k] as u64;
            // rel8 forms must reach their target; otherwise retarget to the next instruction
            let rel = target as i64 - next as i64;
            let is_rel8 = lens[k] <= 3 && !matches!(it.instr.code(), Code::Jmp_rel32_64);
            let tgt = if is_rel8 && !(-128..=127).contains(&rel) { next } else { target };
            it.instr.set_near_branch64(tgt);
        }
        let mut e = Encoder::new(64);
        let n = e.encode(&it.instr, addrs[k]).ok()?;
        if n != lens[k] {
            return None;
        }
        bytes.extend_from_slice(&e.take_buffer());
    }
    Some((start, bytes, addrs))
}

fn b8(v: u64) -> Value {
    json!(v.to_le_bytes().to_vec())
}
pub(crate) fn fl_json(fl: u64) -> Value {
    json!({"cf": fl & 1, "pf": (fl >> 2) & 1, "af": (fl >> 4) & 1, "zf": (fl >> 6) & 1, "sf": (fl >> 7) & 1, "df": (fl >> 10) & 1, "of": (fl >> 11) & 1})
}

pub(crate) struct Obs {
    pub regs: [u64; 16],
    pub xmm: [u128; 16],
    pub fl: u64,
    pub rip: u64,
    pub count: u64,
    pub finished: bool,
    pub trace: Vec<Value>,
    pub mh: String,
}

pub(crate) fn mem_hash(ax: &Axecutor) -> String {
    // FNV-1a over (start, length, protection, bytes) of every area, in area order
    let mut h: u64 = 0xcbf29ce484222325;
    let mut eat = |b: u8| {
        h ^= b as u64;
        h = h.wrapping_mul(0x100000001b3);
    };
    for (i, (s, l, p, _d, _n)) in ax.verif_area_meta().iter().enumerate() {
        for b in s.to_le_bytes().iter().chain(l.to_le_bytes().iter()).chain(p.to_le_bytes().iter()) {
            eat(*b);
        }
        for b in ax.verif_area_data(i).iter() {
            eat(*b);
        }
    }
    format!("{h:016x}")
}

pub(crate) fn observe(ax: &Axecutor) -> Obs {
    let mut regs = [0u64; 16];
    for (i, name) in crate::interp::GPRS.iter().take(16).enumerate() {
        regs[i] = ax.reg_read_64(crate::interp::reg_by_name(name).unwrap()).unwrap_or(0);
    }
    let mut xmm = [0u128; 16];
    for (i, x) in xmm.iter_mut().enumerate() {
        *x = ax.reg_read_128(crate::interp::reg_by_name(&format!("XMM{i}")).unwrap()).unwrap_or(0);
    }
    let trace: Vec<Value> = ax
        .verif_trace()
        .iter()
        .map(|(ip, tg, v, lvl, cnt)| json!({"ip": ip, "target": tg, "var": (["call", "ret", "jump"][*v as usize]), "level": lvl, "count": cnt}))
        .collect();
    Obs {
        regs,
        xmm,
        fl: ax.verif_rflags(),
        rip: ax.reg_read_64(ax_x86::state::registers::SupportedRegister::RIP).unwrap_or(0),
        count: ax.verif_executed_instructions_count(),
        finished: ax.verif_finished(),
        trace,
        mh: mem_hash(ax),
    }
}

fn regs_json(regs: &[u64; 16]) -> Value {
    let mut m = Map::new();
    for (i, name) in crate::interp::GPRS.iter().take(16).enumerate() {
        m.insert(name.to_string(), b8(regs[i]));
    }
    Value::Object(m)
}
fn xmm_json(x: &[u128; 16]) -> Value {
    let mut m = Map::new();
    for (i, v) in x.iter().enumerate() {
        m.insert(format!("XMM{i}"), json!(v.to_le_bytes().to_vec()));
    }
    Value::Object(m)
}

/// stack = Some(len): the stack is set up by init_stack(len) (RSP keeps what init_stack gave it: a RET at that level is "top level")
fn machine(case: &insn::Case, start: u64, stack: Option<u64>) -> Option<Axecutor> {
    let lay = Layout;
    let code_img = lay.image(&AREAS[0], case);
    let mut ax = Axecutor::new(&code_img, CODE, start).ok()?;
    for a in AREAS.iter().skip(1) {
        ax.mem_init_area(a.start, lay.image(a, case)).ok()?;
        ax.mem_prot(a.start, a.prot).ok()?;
    }
    if let Some(len) = stack {
        ax.init_stack(len).ok()?;
    }
    for (i, name) in crate::interp::GPRS.iter().take(16).enumerate() {
        if i == 6 && stack.is_some() {
            continue;
        }
        ax.reg_write_64(crate::interp::reg_by_name(name).unwrap(), case.pre.regs[i]).ok()?;
    }
    for i in 0..16 {
        ax.reg_write_128(crate::interp::reg_by_name(&format!("XMM{i}")).unwrap(), case.pre.xmm[i]).ok()?;
    }
    ax.verif_set_rflags(case.pre.fl);
    Some(ax)
}

fn final_event(ev: &str, c: usize, limit: i64, out: &str, o: &Obs) -> Value {
    json!({"ev": ev, "c": c, "limit": limit, "out": out, "r": regs_json(&o.regs), "x": xmm_json(&o.xmm), "f": fl_json(o.fl), "rip": b8(o.rip),
           "count": o.count, "finished": o.finished, "trace": o.trace, "mh": o.mh})
}

pub fn run(n_programs: usize, len: usize, seed: u64, forms_path: &str, out: &str) -> std::io::Result<()> {
    let forms = insn::load_forms(forms_path);
    let mut g = Gen::new(seed);
    let mut f = std::io::BufWriter::new(std::fs::File::create(out)?);
    let end = CODE + 0x1000;
    let cap = len * 6 + 8;
    let mut made = 0;
    let mut tries = 0;
    while made < n_programs && tries < n_programs * 5 {
        tries += 1;
        crate::interp::PROGRESS.fetch_add(1, std::sync::atomic::Ordering::Relaxed); // the watchdog looks for a hang inside ONE program
        let mut items = gen_items(&mut g, &forms, len);
        // two in five programs run on a stack set up by init_stack and end in a RET (a top-level RET ends the run, as real programs do)
        let stack_mode = g.rng.gen_range(0..5) < 2;
        if stack_mode {
            items.push(Item { instr: Instruction::with(Code::Retnq), branch_to: None, label: 0, back_to: 0 });
        }
        let (start, bytes, _addrs) = match layout(&mut items, end) {
            Some(x) => x,
            None => continue,
        };
        let stack = if stack_mode { Some(0x800u64) } else { None };
        // initial state: random registers, valid stack pointer, program bytes over the pattern memory
        let base = g.make(Code::Nopd, "prog", false, MemShape::Base, Place::Rw, false, Register::None, 0).expect("nop");
        let mut case = base.clone();
        case.pre.ov.clear();
        case.pre.ov.push((start, bytes.clone()));
        case.pre.rip = start;
        case.pre.regs[6] = STK + 0x800;
        case.pre.fs = 0;
        case.pre.gs = 0;
        case.bytes = bytes.clone();
        let pre = case.pre.clone();
        let mut ax = match machine(&case, start, stack) {
            Some(a) => a,
            None => continue,
        };
        // the stack area init_stack created (any area beyond the fixed layout), and the RSP it left
        let mut xa: Vec<Value> = Vec::new();
        let mut pre = pre;
        if stack_mode {
            for (i, (s0, l0, p0, _d, _n)) in ax.verif_area_meta().iter().enumerate() {
                if !AREAS.iter().any(|a| a.start == *s0) {
                    xa.push(json!({"start": s0, "len": l0, "prot": p0}));
                    pre.ov.push((*s0, ax.verif_area_data(i).to_vec()));
                }
            }
            pre.regs[6] = ax.reg_read_64(crate::interp::reg_by_name("RSP").unwrap()).unwrap_or(0);
        }
        writeln!(f, "{}", json!({"ev": "reset", "c": made, "code_end": end, "hasstack": stack_mode, "xa": xa, "mh": mem_hash(&ax),
            "pre": {"r": regs_json(&pre.regs), "x": xmm_json(&pre.xmm), "f": fl_json(pre.fl), "fs": b8(0), "gs": b8(0), "rip": b8(start),
                    "ov": pre.ov.iter().map(|(a, b)| json!([a, b])).collect::<Vec<_>>()}}))?;
        // ---- run 1: step by step ----------------------------------------------------------------------------------
        let mut cur = observe(&ax);
        let mut steps_ok = 0usize;
        let mut ended = "cap";
        for n in 0..cap {
            let rip = cur.rip;
            // the harness's own decode of the program bytes at RIP
            let off = rip.wrapping_sub(start);
            let mut opv0: Option<(u64, u32)> = None;
            let desc = if rip >= start && rip < end {
                let mut d = Decoder::with_ip(64, &bytes[off as usize..], rip, DecoderOptions::NONE);
                let ins = d.decode();
                if matches!(ins.mnemonic(), Mnemonic::Div | Mnemonic::Idiv) {
                    // value of the divisor (reporting only: the finding key tells negative divisors apart)
                    let regval = |r: Register| -> u64 {
                        let full = r.full_register();
                        let v = insn::GPR64.iter().position(|x| *x == full).map(|ix| cur.regs[ix]).unwrap_or(0);
                        match r.size() {
                            1 => if matches!(r, Register::AH | Register::BH | Register::CH | Register::DH) { (v >> 8) & 0xff } else { v & 0xff },
                            2 => v & 0xffff,
                            4 => v & 0xffff_ffff,
                            _ => v,
                        }
                    };
                    if ins.op0_kind() == iced_x86::OpKind::Register {
                        opv0 = Some((regval(ins.op0_register()), ins.op0_register().size() as u32 * 8));
                    } else if let Some(va) = ins.virtual_address(0, 0, |r, _, _| Some(if r == Register::RIP { ins.next_ip() } else if r.is_segment_register() { 0 } else { regval(r) })) {
                        let n = ins.memory_size().size();
                        if let Ok(b) = ax.mem_read_bytes(va, n as u64) {
                            let mut v = 0u64;
                            for (k, x) in b.iter().enumerate().take(8) {
                                v |= (*x as u64) << (8 * k);
                            }
                            opv0 = Some((v, n as u32 * 8));
                        }
                    }
                }
                let blen = ins.len();
                let mut c2 = case.clone();
                c2.instr = ins;
                c2.bytes = bytes[off as usize..off as usize + blen].to_vec();
                insn::insn_desc(&c2)
            } else {
                json!({"m": "none", "code": "none", "len": 0, "ops": []})
            };
            let meta = ax.verif_area_meta();
            let before: Vec<Vec<u8>> = (0..meta.len()).map(|i| ax.verif_area_data(i).to_vec()).collect();
            let step = catch_unwind(AssertUnwindSafe(|| async_std::task::block_on(ax.step())));
            let (o, sub) = match &step {
                Ok(Ok(_)) => ("ok", String::new()),
                Ok(Err(e)) => ("err", e.to_string().lines().nth(1).unwrap_or("").to_string()),
                Err(_) => ("crash", String::new()),
            };
            let now = observe(&ax);
            let mut post_r = Map::new();
            for (i, name) in crate::interp::GPRS.iter().take(16).enumerate() {
                if now.regs[i] != cur.regs[i] {
                    post_r.insert(name.to_string(), b8(now.regs[i]));
                }
            }
            let mut post_x = Map::new();
            for i in 0..16 {
                if now.xmm[i] != cur.xmm[i] {
                    post_x.insert(format!("XMM{i}"), json!(now.xmm[i].to_le_bytes().to_vec()));
                }
            }
            let mut mem = Vec::new();
            for (i, (s, _l, _p, _d, _n)) in ax.verif_area_meta().iter().enumerate() {
                if i < before.len() {
                    insn::diff_runs(*s, &before[i], ax.verif_area_data(i), &mut mem);
                }
            }
            writeln!(f, "{}", json!({"ev": "step", "c": made, "n": n, "i": desc, "out": o, "sub": sub, "carry": regs_json(&cur.regs),
                "post": {"r": post_r, "x": post_x, "f": fl_json(now.fl), "rip": b8(now.rip), "m": mem.iter().map(|(a, b)| json!([a, b])).collect::<Vec<_>>()},
                "count": now.count, "finished": now.finished, "trace": now.trace, "mh": now.mh,
                "opv0": opv0.map(|(v, b)| json!({"v": v, "bits": b})).unwrap_or(Value::Null)}))?;
            cur = now;
            if o == "ok" {
                steps_ok += 1;
            }
            if cur.finished {
                ended = "finished";
                // one extra step after the end must fail and change nothing
                let step2 = catch_unwind(AssertUnwindSafe(|| async_std::task::block_on(ax.step())));
                let o2 = match step2 { Ok(Ok(_)) => "ok", Ok(Err(_)) => "err", Err(_) => "crash" };
                let after = observe(&ax);
                writeln!(f, "{}", final_event("after-finish", made, -1, o2, &after))?;
                break;
            }
            if o != "ok" {
                ended = "error";
                break;
            }
        }
        // ---- run 2: the same program through execute() -------------------------------------------------------------
        if let Some(mut ax2) = machine(&case, start, stack) {
            if ended == "cap" {
                let _ = ax2.set_max_instructions(cap as u64);
            }
            let r = catch_unwind(AssertUnwindSafe(|| async_std::task::block_on(ax2.execute())));
            let o = match r { Ok(Ok(_)) => "ok", Ok(Err(_)) => "err", Err(_) => "crash" };
            writeln!(f, "{}", final_event("execute", made, if ended == "cap" { cap as i64 } else { -1 }, o, &observe(&ax2)))?;
        }
        // ---- run 3: execute() under an instruction limit N < number of completed steps, then one more step ----------
        if steps_ok >= 2 {
            let n = g.rng.gen_range(1..steps_ok) as u64;
            if let Some(mut ax3) = machine(&case, start, stack) {
                let _ = ax3.set_max_instructions(n);
                let r = catch_unwind(AssertUnwindSafe(|| async_std::task::block_on(ax3.execute())));
                let o = match r { Ok(Ok(_)) => "ok", Ok(Err(_)) => "err", Err(_) => "crash" };
                writeln!(f, "{}", final_event("limit", made, n as i64, o, &observe(&ax3)))?;
                let r2 = catch_unwind(AssertUnwindSafe(|| async_std::task::block_on(ax3.step())));
                let o2 = match r2 { Ok(Ok(_)) => "ok", Ok(Err(_)) => "err", Err(_) => "crash" };
                writeln!(f, "{}", final_event("after-limit", made, n as i64, o2, &observe(&ax3)))?;
            }
        }
        made += 1;
    }
    f.flush()
}
