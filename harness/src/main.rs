//! axv — conformance harness binding the TLA+ specification in /verif/spec to the real `ax` code.
mod bytes;
mod elfrun;
mod insn;
mod interp;
mod native;
mod prog;
mod two;
mod table8;

#[global_allocator]
static GLOBAL: elfrun::Counting = elfrun::Counting;

fn usage() -> ! {
    eprintln!("usage: axv run <scenarios.ndjson> <trace.ndjson> [--skip N]");
    std::process::exit(2);
}

fn main() {
    // a panic in the code under test is data, not noise
    std::panic::set_hook(Box::new(|_| {}));
    let args: Vec<String> = std::env::args().collect();
    if args.len() < 2 {
        usage();
    }
    match args[1].as_str() {
        "run" => {
            if args.len() < 4 {
                usage();
            }
            let mut skip = 0usize;
            if args.len() >= 6 && args[4] == "--skip" {
                skip = args[5].parse().unwrap_or(0);
            }
            interp::start_watchdog(4);
            if let Err(e) = interp::run_file(&args[2], &args[3], skip) {
                eprintln!("axv: io error: {e}");
                std::process::exit(2);
            }
        }
        "forms" => {
            // axv forms <seed> <out.json>: probe which (Code, reg|mem) forms execute on the current tree
            let seed: u64 = args.get(2).and_then(|s| s.parse().ok()).unwrap_or(1);
            let v = insn::probe_forms(seed);
            std::fs::write(args.get(3).map(|s| s.as_str()).unwrap_or("forms.json"), serde_json::to_string_pretty(&v).unwrap()).unwrap();
        }
        "bytes" => {
            // axv bytes <classes.ndjson> <seed> <per_class> <uniform> <mutated> <forms.json> <out> [--skip N]
            if args.len() < 9 {
                usage();
            }
            let skip = if args.len() >= 11 && args[9] == "--skip" { args[10].parse().unwrap_or(0) } else { 0 };
            interp::start_watchdog(5);
            if let Err(e) = bytes::run(&args[2], args[3].parse().unwrap_or(1), args[4].parse().unwrap_or(1), args[5].parse().unwrap_or(0),
                                       args[6].parse().unwrap_or(0), &args[7], &args[8], skip) {
                eprintln!("axv: io error: {e}");
                std::process::exit(2);
            }
        }
        "elf" => {
            // axv elf <cases.ndjson> <out.ndjson> [--skip N]
            if args.len() < 4 {
                usage();
            }
            let skip = if args.len() >= 6 && args[4] == "--skip" { args[5].parse().unwrap_or(0) } else { 0 };
            interp::start_watchdog(8);
            if let Err(e) = elfrun::run(&args[2], &args[3], skip) {
                eprintln!("axv: io error: {e}");
                std::process::exit(2);
            }
        }
        "table8" => {
            // axv table8 <table.ndjson> <forms.json> <out.ndjson> [threads]
            if args.len() < 5 {
                usage();
            }
            let th: usize = args.get(5).and_then(|s| s.parse().ok()).unwrap_or(8);
            if let Err(e) = table8::run(&args[2], &args[3], &args[4], th) {
                eprintln!("axv: io error: {e}");
                std::process::exit(2);
            }
        }
        "prog" => {
            // axv prog <n_programs> <len> <seed> <forms.json> <out.ndjson>
            if args.len() < 7 {
                usage();
            }
            interp::start_watchdog(20);
            if let Err(e) = prog::run(args[2].parse().unwrap_or(1), args[3].parse().unwrap_or(8), args[4].parse().unwrap_or(1), &args[5], &args[6]) {
                eprintln!("axv: io error: {e}");
                std::process::exit(2);
            }
        }
        "two" => {
            // axv two <n_programs> <len> <seed> <forms.json> <out.ndjson>
            if args.len() < 7 {
                usage();
            }
            interp::start_watchdog(20);
            if let Err(e) = two::run(args[2].parse().unwrap_or(1), args[3].parse().unwrap_or(8), args[4].parse().unwrap_or(1), &args[5], &args[6]) {
                eprintln!("axv: io error: {e}");
                std::process::exit(2);
            }
        }
        "candidates" => {
            for c in insn::candidate_codes() {
                println!("{c:?}");
            }
        }
        "insn" => {
            // axv insn <family> <per_form> <seed> <forms.json> <out_prefix> [native|nonative]
            if args.len() < 7 {
                usage();
            }
            let per: usize = args[3].parse().unwrap_or(1);
            let seed: u64 = args[4].parse().unwrap_or(1);
            let native = args.get(7).map(|s| s != "nonative").unwrap_or(true);
            if let Err(e) = insn::run_family(&args[2], per, seed, &args[5], &args[6], native) {
                eprintln!("axv: io error: {e}");
                std::process::exit(2);
            }
        }
        _ => usage(),
    }
}
