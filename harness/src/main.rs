//! axv — conformance harness binding the TLA+ specification in /verif/spec to the real `ax` code.
mod interp;

fn usage() -> ! {
    eprintln!("usage: axv run <scenarios.ndjson> <trace.ndjson> [--skip N]");
    std::process::exit(2);
}

fn main() {
    // a panic in the code under test is data, not noise
    std::panic::set_hook(Box::new(|_| {}));
    let args: Vec<String> = std::env::args().collect();
    if args.len() < 2 {
        usage();
    }
    match args[1].as_str() {
        "run" => {
            if args.len() < 4 {
                usage();
            }
            let mut skip = 0usize;
            if args.len() >= 6 && args[4] == "--skip" {
                skip = args[5].parse().unwrap_or(0);
            }
            interp::start_watchdog(4);
            if let Err(e) = interp::run_file(&args[2], &args[3], skip) {
                eprintln!("axv: io error: {e}");
                std::process::exit(2);
            }
        }
        _ => usage(),
    }
}
