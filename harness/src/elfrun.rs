//! C16 driver: offers byte strings to Axecutor::from_binary under catch_unwind; a counting global allocator records
//! the largest single allocation request while a case runs; the address space is limited so that a runaway request
//! fails (abort -> the supervisor records it) instead of exhausting the machine.

use serde_json::{json, Value};
use std::alloc::{GlobalAlloc, Layout, System};
use std::io::{BufRead, Write};
use std::sync::atomic::{AtomicU64, Ordering};

pub static MAX_REQ: AtomicU64 = AtomicU64::new(0);

pub struct Counting;
unsafe impl GlobalAlloc for Counting {
    unsafe fn alloc(&self, l: Layout) -> *mut u8 {
        MAX_REQ.fetch_max(l.size() as u64, Ordering::Relaxed);
        System.alloc(l)
    }
    unsafe fn alloc_zeroed(&self, l: Layout) -> *mut u8 {
        MAX_REQ.fetch_max(l.size() as u64, Ordering::Relaxed);
        System.alloc_zeroed(l)
    }
    unsafe fn realloc(&self, p: *mut u8, l: Layout, n: usize) -> *mut u8 {
        MAX_REQ.fetch_max(n as u64, Ordering::Relaxed);
        System.realloc(p, l, n)
    }
    unsafe fn dealloc(&self, p: *mut u8, l: Layout) {
        System.dealloc(p, l)
    }
}

pub fn run(input: &str, output: &str, skip: usize) -> std::io::Result<()> {
    unsafe {
        let lim = libc::rlimit { rlim_cur: 24u64 << 30, rlim_max: 24u64 << 30 };
        libc::setrlimit(libc::RLIMIT_AS, &lim);
    }
    let f = std::io::BufReader::new(std::fs::File::open(input)?);
    let mut out = std::io::BufWriter::new(std::fs::OpenOptions::new().create(true).append(true).open(output)?);
    for (n, line) in f.lines().enumerate() {
        let line = line?;
        if n < skip || line.trim().is_empty() {
            continue;
        }
        let v: Value = serde_json::from_str(&line).map_err(|e| std::io::Error::new(std::io::ErrorKind::Other, e.to_string()))?;
        let data: Vec<u8> = v["data"].as_array().map(|a| a.iter().map(|x| x.as_u64().unwrap_or(0) as u8).collect()).unwrap_or_default();
        writeln!(out, "{}", json!({"c": n, "begin": true}))?;
        out.flush()?;
        crate::interp::PROGRESS.fetch_add(1, Ordering::Relaxed);
        MAX_REQ.store(0, Ordering::Relaxed);
        let r = std::panic::catch_unwind(|| ax_x86::axecutor::Axecutor::from_binary(&data).map(|ax| ax.verif_area_meta().len()));
        let maxreq = MAX_REQ.load(Ordering::Relaxed);
        let (o, msg) = match r {
            Ok(Ok(n)) => ("ok", format!("{n} areas")),
            Ok(Err(e)) => ("err", e.to_string().lines().next().unwrap_or("").to_string()),
            Err(p) => ("crash", if let Some(s) = p.downcast_ref::<&str>() { s.to_string() } else if let Some(s) = p.downcast_ref::<String>() { s.clone() } else { "?".into() }),
        };
        writeln!(out, "{}", json!({"c": n, "cls": v["cls"], "out": o, "msg": msg, "maxalloc": maxreq, "len": data.len()}))?;
    }
    out.flush()
}
