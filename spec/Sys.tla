-------------------------------- MODULE Sys --------------------------------
(***************************************************************************)
(* The built-in system-call layer of ax beyond brk (Brk.tla) and pipes     *)
(* (Pipe.tla): registration, dispatch by the number in RAX, exit, and      *)
(* arch_prctl.  None of the 20 listed properties is about exit /           *)
(* arch_prctl; this module extends the specification's coverage of the     *)
(* system and is bound to the code like the others (Trace_Sys), as an      *)
(* extra check that is not registered in MANIFEST.json.                    *)
(*                                                                         *)
(* arch_prctl is specified twice: Linux(...) is the kernel ABI, Ax(...) is *)
(* what ax documents by its code - the differences are NAMED (Deviation),  *)
(* so that an observation is either ABI-conformant, or exactly the named   *)
(* deviation, or a regression.                                             *)
(***************************************************************************)
EXTENDS Naturals, FiniteSets

Builtins == {"Brk", "Pipe", "Exit", "ArchPrctl"}
NumberOf(b) == CASE b = "Brk" -> 12 [] b = "Pipe" -> 22 [] b = "Exit" -> 60 [] b = "ArchPrctl" -> 158

\* registration is idempotent and refused while a hook is running
Register(reg, list, running) == IF running THEN [k |-> "err", reg |-> reg] ELSE [k |-> "ok", reg |-> reg \cup list]

\* who claims a `syscall` with RAX = n (read / write are claimed by the pipe handler only for pipe descriptors: Pipe.tla)
Claims(reg, n) == {b \in reg : NumberOf(b) = n}

\* ---- exit --------------------------------------------------------------------------------------------------------
\* the run ends like after stop(): finished, the step completes and reports "no further instruction", registers stay
ExitOutcome(st) == [st EXCEPT !.finished = TRUE]

\* ---- arch_prctl(code in RDI, addr in RSI) ------------------------------------------------------------------------
SET_GS == 4097   SET_FS == 4098   GET_FS == 4099   GET_GS == 4100       \* 0x1001 .. 0x1004
EFAULT == 14     EINVAL == 22
\* st = [rax, fs, gs];  readable = the byte at addr can be read;  the ABI stores GET results THROUGH the pointer (word)
Linux(st, code, addr, readable) ==
  CASE code = SET_FS -> [rax |-> 0, fs |-> addr, gs |-> st.gs, word |-> "same"]
    [] code = SET_GS -> [rax |-> 0, fs |-> st.fs, gs |-> addr, word |-> "same"]
    [] code = GET_FS -> IF readable THEN [rax |-> 0, fs |-> st.fs, gs |-> st.gs, word |-> "fs"] ELSE [rax |-> EFAULT, fs |-> st.fs, gs |-> st.gs, word |-> "same"]
    [] code = GET_GS -> IF readable THEN [rax |-> 0, fs |-> st.fs, gs |-> st.gs, word |-> "gs"] ELSE [rax |-> EFAULT, fs |-> st.fs, gs |-> st.gs, word |-> "same"]
    [] OTHER -> [rax |-> EINVAL, fs |-> st.fs, gs |-> st.gs, word |-> "same"]
\* ax: the pointer must be readable for EVERY code; 0x1001 and 0x1003 are exchanged; GET results come back in RAX;
\* a successful SET leaves RAX as it was (the syscall number)
Ax(st, code, addr, readable) ==
  IF ~readable THEN [rax |-> EFAULT, fs |-> st.fs, gs |-> st.gs, word |-> "same"]
  ELSE CASE code = SET_FS -> [rax |-> st.rax, fs |-> addr, gs |-> st.gs, word |-> "same"]
         [] code = GET_FS -> [rax |-> st.rax, fs |-> st.fs, gs |-> addr, word |-> "same"]          \* 0x1003 sets GS
         [] code = SET_GS -> [rax |-> st.fs, fs |-> st.fs, gs |-> st.gs, word |-> "same"]          \* 0x1001 returns FS
         [] code = GET_GS -> [rax |-> st.gs, fs |-> st.fs, gs |-> st.gs, word |-> "same"]
         [] OTHER -> [rax |-> EINVAL, fs |-> st.fs, gs |-> st.gs, word |-> "same"]
Deviation(st, code, addr, readable) == Ax(st, code, addr, readable) # Linux(st, code, addr, readable)
=============================================================================
