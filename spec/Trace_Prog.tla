----------------------------- MODULE Trace_Prog -----------------------------
(***************************************************************************)
(* The composed machine: X86.tla (registers, flags, memory, instruction    *)
(* pointer) together with Exec.tla (executed-instruction count, finish     *)
(* condition, control-flow log) - validated against whole PROGRAMS run on  *)
(* the real Axecutor.                                                      *)
(*                                                                         *)
(* A "reset" event carries the complete initial state; every following     *)
(* "step" event carries the descriptor of the instruction at the current   *)
(* RIP (decoded by the harness from the program it generated) and the      *)
(* observed outcome with the post-state as a diff over all registers,      *)
(* flags and memory bytes.  The specification CARRIES the machine state    *)
(* from step to step (observed diffs applied), so every instruction is     *)
(* judged in the state the program really reached, and it checks the       *)
(* harness's logged pre-registers against the carried ones.                *)
(***************************************************************************)
EXTENDS X86, TLC, Json, IOUtils

Rec == ndJsonDeserialize(IOEnv.TRACE)
VARIABLES l, st, ex, flow,
          hist,     \* hist[k+1] = the machine after k completed steps of the current program: [st, ex, flow, mh]
          ended     \* how the stepping run ended so far: "running" | "finished" | "error"
pvars == <<l, st, ex, flow, hist, ended>>

Regs16 == {"RAX","RBX","RCX","RDX","RSI","RDI","RSP","RBP","R8","R9","R10","R11","R12","R13","R14","R15"}
Flags7 == {"cf", "pf", "af", "zf", "sf", "df", "of"}
St0 == [r |-> [n \in Regs16 |-> Z8], x |-> <<>>, f |-> [n \in Flags7 |-> 0], fs |-> Z8, gs |-> Z8, rip |-> Z8, ov |-> <<>>, xa |-> <<>>, rsp0 |-> Z8]
Ex0 == [count |-> 0, finished |-> FALSE, code_end |-> 0, hasstack |-> FALSE, depth |-> 0, max |-> NoLimit, rip |-> 0]
TraceInit == l = 1 /\ st = St0 /\ ex = Ex0 /\ flow = <<>> /\ hist = <<>> /\ ended = "running"

PPostR(e) == [n \in Regs16 |-> IF n \in DOMAIN e.post.r THEN e.post.r[n] ELSE st.r[n]]
PPostX(e) == [n \in DOMAIN st.x |-> IF n \in DOMAIN e.post.x THEN e.post.x[n] ELSE st.x[n]]
PObsMem(e) == UNION {{<<e.post.m[k][1] + j - 1, e.post.m[k][2][j]>> : j \in 1..Len(e.post.m[k][2])} : k \in 1..Len(e.post.m)}
PExpMem(x) == UNION {{<<x.mw[k][1] + j - 1, x.mw[k][2][j]>> : j \in {jj \in 1..Len(x.mw[k][2]) : x.mw[k][2][jj] # ByteAt(st, x.mw[k][1] + jj - 1)}}
                     : k \in 1..Len(x.mw)}
PFlagBad(e, x, fl) ==
  LET fx == x.fx[fl] pre == st.f[fl] post == e.post.f[fl] IN
  CASE fx.s = "same" -> post # pre [] fx.s = "undef" -> FALSE
    [] fx.s = "def" -> IF fl = "af" THEN FALSE ELSE post # fx.v
PDiff(e, x) ==
  (IF \E n \in Regs16 \ x.any : PPostR(e)[n] # x.r[n] THEN {"reg"} ELSE {})
  \cup (IF \E n \in x.any : Upper(PPostR(e)[n], 4) # Zeros(4) THEN {"reg"} ELSE {})
  \cup (IF st.x # <<>> /\ PPostX(e) # x.x THEN {"xmm"} ELSE {})
  \cup (IF PObsMem(e) # PExpMem(x) THEN {"mem"} ELSE {})
  \cup (IF \E fl \in Flags7 : PFlagBad(e, x, fl) THEN {"flags"} ELSE {})
  \cup (IF e.post.rip # x.rip THEN {"rip"} ELSE {})
PJudge(e, x) ==
  IF x.out = "fault" THEN (IF e.out = "err" THEN {} ELSE IF e.out = "ok" THEN {"out-missing-fault"} ELSE {"out-" \o e.out})
  ELSE IF e.out = "ok" THEN PDiff(e, x)
  ELSE IF e.out = "err" THEN {"out-spurious-error"}
  ELSE {"out-" \o e.out}

\* loop-level view of an instruction (Exec.tla annotation) derived from the descriptor and the architectural step
\* "the stack is empty" is a statement about the stack pointer (Exec.tla): with a stack set up by init_stack, the height is 0
\* iff RSP holds the value init_stack gave it (st.rsp0)
ExH == [ex EXCEPT !.depth = IF ex.hasstack /\ st.r["RSP"] = st.rsp0 THEN 0 ELSE 1]
TopRet(i) == i.m = "ret" /\ ex.hasstack /\ st.r["RSP"] = st.rsp0
\* a top-level RET ends the run: nothing is popped, no register or memory byte changes, RIP stays behind the instruction
TopRetStep(i) == Done(st, i, st.r, st.x, <<>>, NoFx, Next8(st, i), {})
Kind(i) == IF i.m \in JccSet THEN "jcc" ELSE IF i.m \in {"jmp", "call", "ret"} THEN i.m ELSE "plain"
Ann(i, x) == [kind |-> Kind(i), ip |-> ToInt(st.rip), next |-> ToInt(Next8(st, i)), target |-> ToInt(x.rip),
              cc |-> IF i.m \in JccSet THEN (IF i.m = "jrcxz" THEN "rcxz" ELSE IF i.m = "jecxz" THEN "ecxz" ELSE CcOf(i.m)) ELSE "",
              mnem |-> i.m]
ExecBad(e, i, x) ==
  LET a == Ann(i, x) s2 == Effect(ExH, a, FlagsRec(st)) IN
  IF e.out # "ok" THEN (IF e.count # ex.count \/ e.finished # ex.finished THEN {"C11:failed-step-changed-count"} ELSE {})
  ELSE IF x.out # "ok" THEN {}       \* completed where the specification faults: reported as out-missing-fault, nothing to compare
  ELSE (IF e.count # s2.count THEN {"C11:count"} ELSE {})
       \cup (IF e.finished # s2.finished THEN {"C11:finished"} ELSE {})
       \cup (IF e.trace # Compress(flow \o FlowEvent(ExH, a, FlagsRec(st))) THEN {"C18:trace-log"} ELSE {})

StackM == {"push", "pop", "call", "ret"}
StepEv(e) ==
  LET i == e.i IN
  IF e.out = "crash" THEN {"out-crash"}            \* whatever the instruction (also an unfetchable one): a step never crashes the host
  ELSE IF e.carry # st.r THEN {"harness-pre-state-differs-from-carried-state"}
  ELSE IF i.m \notin Known THEN {}
  ELSE IF TopRet(i) THEN PJudge(e, TopRetStep(i)) \cup ExecBad(e, i, TopRetStep(i))
  ELSE LET x == Step(st, i, PPostR(e))
           b == PJudge(e, x)
           d == b # {} /\ i.m \in StackM /\ PJudge(e, StepD(st, i, TRUE, PPostR(e))) = {}
       IN (IF d THEN {"known-stack-convention"} ELSE b) \cup ExecBad(e, i, IF d THEN StepD(st, i, TRUE, PPostR(e)) ELSE x)

ApplyObs(e) == [st EXCEPT !.r = PPostR(e), !.x = IF st.x = <<>> THEN <<>> ELSE PPostX(e), !.f = e.post.f,
                          !.ov = st.ov \o e.post.m, !.rip = e.post.rip]

\* a whole-machine observation (after execute(), after a refused step) against a recorded machine h = [st, ex, flow, mh]
SameAs(e, h) ==
  (IF e.r # h.st.r \/ e.x # h.st.x THEN {"registers"} ELSE {})
  \cup (IF e.f # h.st.f THEN {"flags"} ELSE {})
  \cup (IF e.rip # h.st.rip THEN {"rip"} ELSE {})
  \cup (IF e.mh # h.mh THEN {"memory"} ELSE {})
  \cup (IF e.count # h.ex.count THEN {"count"} ELSE {})
  \cup (IF e.finished # h.ex.finished THEN {"finished"} ELSE {})
  \cup (IF e.trace # Compress(h.flow) THEN {"trace-log"} ELSE {})
Tag(p, S) == {p \o c : c \in S}
Last == hist[Len(hist)]

FinalEv(e) ==
  CASE e.ev = "after-finish" ->      \* a step on the finished machine: fails and changes nothing
         (IF e.out # "err" THEN {"C11:step-after-finish-did-not-fail"} ELSE {}) \cup Tag("C11:step-after-finish-changed-", SameAs(e, Last))
    [] e.ev = "execute" ->            \* the same program run by execute(): ends like the stepping run did, in the same machine state
         (IF ended = "finished" /\ e.out # "ok" THEN {"C11:execute-failed-where-stepping-finished"} ELSE {})
         \cup (IF ended # "finished" /\ e.out # "err" THEN {"C11:execute-did-not-fail"} ELSE {})
         \cup Tag("C11:execute-differs-from-stepping-", SameAs(e, Last))
    [] e.ev = "limit" ->              \* execute() under max_instructions = N < completed steps: error after exactly N instructions
         (IF e.out # "err" THEN {"C11:limit-not-enforced"} ELSE {})
         \cup (IF e.limit + 1 <= Len(hist) THEN Tag("C11:limit-state-", SameAs(e, hist[e.limit + 1])) ELSE {"harness-limit-out-of-range"})
    [] e.ev = "after-limit" ->        \* a further step at the limit: fails and changes nothing
         (IF e.out # "err" THEN {"C11:step-at-limit-did-not-fail"} ELSE {})
         \cup (IF e.limit + 1 <= Len(hist) THEN Tag("C11:step-at-limit-changed-", SameAs(e, hist[e.limit + 1])) ELSE {})

Next == /\ l <= Len(Rec)
        /\ LET e == Rec[l] IN
           IF e.ev = "reset"
           THEN LET s0 == [r |-> e.pre.r, x |-> e.pre.x, f |-> e.pre.f, fs |-> e.pre.fs, gs |-> e.pre.gs, rip |-> e.pre.rip, ov |-> e.pre.ov,
                           xa |-> e.xa, rsp0 |-> e.pre.r["RSP"]]
                    x0 == [Ex0 EXCEPT !.code_end = e.code_end, !.hasstack = e.hasstack, !.rip = ToInt(e.pre.rip)]
                    f0 == <<[ip |-> 0, target |-> ToInt(e.pre.rip), var |-> "call"]>>
                IN st' = s0 /\ ex' = x0 /\ flow' = f0 /\ hist' = <<[st |-> s0, ex |-> x0, flow |-> f0, mh |-> e.mh]>> /\ ended' = "running"
           ELSE IF e.ev = "step"
           THEN LET b == StepEv(e) i == e.i
                    s1 == ApplyObs(e)
                    x1 == [ex EXCEPT !.count = e.count, !.finished = e.finished, !.rip = ToInt(e.post.rip),
                                     !.depth = IF e.out = "ok" /\ i.m = "call" THEN ex.depth + 1
                                               ELSE IF e.out = "ok" /\ i.m = "ret" /\ ~e.finished THEN ex.depth - 1 ELSE ex.depth]
                    f0 == IF e.out = "ok" /\ i.m \in Known THEN flow \o FlowEvent(ExH, Ann(i, [rip |-> e.post.rip]), FlagsRec(st)) ELSE flow
                    \* after a reported log mismatch the history is resynchronised with the observed log (one verdict per defect)
                    f1 == IF e.trace # Compress(f0) THEN Decompress(e.trace) ELSE f0
                IN /\ IF b = {} THEN TRUE ELSE PrintT(<<"VERDICT", e.c, e.n, e.i.code, b>>)
                   /\ st' = s1 /\ ex' = x1 /\ flow' = f1
                   /\ hist' = IF e.out = "ok" THEN Append(hist, [st |-> s1, ex |-> x1, flow |-> f1, mh |-> e.mh])
                               ELSE [hist EXCEPT ![Len(hist)] = [st |-> s1, ex |-> x1, flow |-> f1, mh |-> e.mh]]
                   /\ ended' = IF e.out # "ok" THEN "error" ELSE IF e.finished THEN "finished" ELSE "running"
           ELSE LET b == FinalEv(e) IN
                /\ IF b = {} THEN TRUE ELSE PrintT(<<"VERDICT", e.c, e.limit, e.ev, b>>)
                /\ UNCHANGED <<st, ex, flow, hist, ended>>
        /\ l' = l + 1
Finish == l = Len(Rec) + 1 /\ PrintT(<<"TRACE-DONE", Len(Rec)>>) /\ l' = l + 1 /\ UNCHANGED <<st, ex, flow, hist, ended>>
TNext == Next \/ Finish
=============================================================================
