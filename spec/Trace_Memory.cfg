CONSTANTS
  HUGE = 1073741824
INIT TraceInit
NEXT TNext
CHECK_DEADLOCK FALSE
