----------------------------- MODULE StackInit -----------------------------
(***************************************************************************)
(* Process-stack initialisation (init_stack_program_start) as the guest    *)
(* observes it (property C17): the System V entry frame.                   *)
(*                                                                         *)
(* An outcome o =                                                          *)
(*   [rsp     : stack pointer after the call,                              *)
(*    popped  : the values the guest obtains by popping n = argc+envc+3    *)
(*              times,                                                     *)
(*    strs    : for each popped pointer (in order) the bytes read there    *)
(*              (length of the string + 1),                                *)
(*    frame   : <<lowest address, length>> of the slots the pops read,     *)
(*    stack   : <<start, length>> of the stack area,                       *)
(*    areas   : all areas <<start, length, prot>> after the call,          *)
(*    before  : the areas that existed before the call]                    *)
(***************************************************************************)
EXTENDS Naturals, Sequences, FiniteSets

Overlap(s1, n1, s2, n2) == n1 > 0 /\ n2 > 0 /\ s1 < s2 + n2 /\ s2 < s1 + n1
Slack == 48            \* alignment padding allowed between the requested size and the space below RSP

Strings(argv, envp) == argv \o envp
Ptrs(o, argc, envc) == [i \in 1..(argc + envc) |-> IF i <= argc THEN o.popped[1 + i] ELSE o.popped[2 + i]]
\* <<start, length>> ranges that must be mapped, writable and mutually disjoint: every string copy and the frame
Ranges(o, argv, envp) == LET ss == Strings(argv, envp) p == Ptrs(o, Len(argv), Len(envp)) IN
                          [i \in 1..(Len(ss) + 1) |-> IF i <= Len(ss) THEN <<p[i], Len(ss[i]) + 1>> ELSE o.frame]
Within(areas, r) == \E k \in 1..Len(areas) : areas[k][1] <= r[1] /\ r[1] + r[2] <= areas[k][1] + areas[k][2]
                                               /\ (areas[k][3] \div 2) % 2 = 1 /\ areas[k][3] % 2 = 1       \* readable and writable

Post(o, argv, envp, L) ==
  LET argc == Len(argv) envc == Len(envp) n == argc + envc + 3
      ss == Strings(argv, envp) p == Ptrs(o, argc, envc) rs == Ranges(o, argv, envp) IN
  /\ o.rsp % 16 = 0                                                             \* 16-byte aligned
  /\ Len(o.popped) = n
  /\ o.popped[1] = argc                                                         \* argument count
  /\ o.popped[argc + 2] = 0 /\ o.popped[n] = 0                                  \* the two terminating nulls
  /\ \A i \in 1..Len(ss) : o.strs[i] = ss[i] \o <<0>>                           \* NUL-terminated copies, in order
  /\ \A i \in 1..Len(rs) : Within(o.areas, rs[i])                               \* mapped, writable
  /\ \A i, j \in 1..Len(rs) : i # j => ~Overlap(rs[i][1], rs[i][2], rs[j][1], rs[j][2])      \* mutually disjoint
  /\ \A i \in 1..Len(rs) : \A k \in 1..Len(o.before) : ~Overlap(rs[i][1], rs[i][2], o.before[k][1], o.before[k][2])   \* no collision with the image
  /\ \A i, j \in 1..Len(o.areas) : i # j => ~Overlap(o.areas[i][1], o.areas[i][2], o.areas[j][1], o.areas[j][2])
  /\ o.stack[1] <= o.rsp /\ o.rsp <= o.stack[1] + o.stack[2]
  /\ o.rsp - o.stack[1] + Slack >= L /\ o.rsp - o.stack[1] <= L + 16            \* space below RSP = requested size up to padding

\* which conjuncts fail (for reporting)
Failing(o, argv, envp, L) ==
  LET argc == Len(argv) envc == Len(envp) n == argc + envc + 3
      ss == Strings(argv, envp) rs == Ranges(o, argv, envp) IN
  (IF o.rsp % 16 # 0 THEN {"rsp-not-16-aligned"} ELSE {})
  \cup (IF Len(o.popped) # n THEN {"wrong-number-of-slots"}
        ELSE (IF o.popped[1] # argc THEN {"argc"} ELSE {})
             \cup (IF o.popped[argc + 2] # 0 \/ o.popped[n] # 0 THEN {"missing-null-terminator"} ELSE {})
             \cup (IF \E i \in 1..Len(ss) : o.strs[i] # ss[i] \o <<0>> THEN {"string-copy"} ELSE {})
             \cup (IF \E i \in 1..Len(rs) : ~Within(o.areas, rs[i]) THEN {"not-mapped-writable"} ELSE {})
             \cup (IF \E i, j \in 1..Len(rs) : i # j /\ Overlap(rs[i][1], rs[i][2], rs[j][1], rs[j][2]) THEN {"strings-or-frame-overlap"} ELSE {})
             \cup (IF \E i \in 1..Len(rs) : \E k \in 1..Len(o.before) : Overlap(rs[i][1], rs[i][2], o.before[k][1], o.before[k][2]) THEN {"collides-with-existing-area"} ELSE {}))
  \cup (IF \E i, j \in 1..Len(o.areas) : i # j /\ Overlap(o.areas[i][1], o.areas[i][2], o.areas[j][1], o.areas[j][2]) THEN {"areas-overlap"} ELSE {})
  \cup (IF ~(o.stack[1] <= o.rsp /\ o.rsp <= o.stack[1] + o.stack[2]) THEN {"rsp-outside-stack-area"}
        ELSE IF ~(o.rsp - o.stack[1] + Slack >= L /\ o.rsp - o.stack[1] <= L + 16) THEN {"stack-space-below-rsp"} ELSE {})
=============================================================================
