CONSTANTS
  Base = 2
  DBits = 1
  RegLen = 8
  ModelRegs = {"RAX", "RSI", "RIP"}
  MCNames = {"AL","AH","AX","EAX","RAX","SIL","SI","ESI","RSI","RIP","EIP","XMM0"}
  MaxDepth = 3
  DumpEdges = FALSE
INIT Init
NEXT Next
VIEW View
INVARIANT RFTypeOK
ACTION_CONSTRAINT EdgeCheck
CHECK_DEADLOCK FALSE
