INIT Init
NEXT Next
INVARIANTS UnknownAgree SetFsBases OneClaimant RegLaws
CHECK_DEADLOCK FALSE
