CONSTANTS
  Base = 4
  DBits = 2
  MaxLen = 2
INIT Init
NEXT Next
INVARIANTS G_AddOK G_SubOK G_NegOK G_NotOK G_CmpOK G_ExtOK G_LogicOK G_ShiftOK G_MulOK G_DivOK G_DivRelOK G_SDivRelOK G_ParityOK
CHECK_DEADLOCK FALSE
