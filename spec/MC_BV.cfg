CONSTANTS
  Base = 4
  DBits = 2
  MaxLen = 2
INIT Init
NEXT Next
INVARIANTS AddOK SubOK NegOK NotOK CmpOK ExtOK LogicOK ShiftOK MulOK DivOK ParityOK
CHECK_DEADLOCK FALSE
