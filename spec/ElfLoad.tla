------------------------------ MODULE ElfLoad ------------------------------
(***************************************************************************)
(* Loading a well-formed static ELF64 executable (property C15), stated    *)
(* relationally on what can be observed of the resulting machine.          *)
(*                                                                         *)
(* file:  [entry, segs : sequence of [load : BOOLEAN, vaddr, data, memsz,  *)
(*         prot (the protection the segment flags ask for)],               *)
(*         syms : sequence of [addr, names : set of names of the symbols   *)
(*         DEFINED at addr in the file]]                                   *)
(* obs:   [k, rip, areas : sequence of [start, len, prot, nz] where nz is  *)
(*         the sparse content <<offset, byte>> of non-zero bytes],         *)
(*         resolved : sequence (parallel to file.syms) of [some, name]]    *)
(***************************************************************************)
EXTENDS Naturals, Sequences, FiniteSets

Holder(obs, s) == {k \in 1..Len(obs.areas) : obs.areas[k].start <= s.vaddr /\ s.vaddr + s.memsz <= obs.areas[k].start + obs.areas[k].len}
Overlap(s1, n1, s2, n2) == n1 > 0 /\ n2 > 0 /\ s1 < s2 + n2 /\ s2 < s1 + n1

\* the observed non-zero bytes inside [vaddr, vaddr + memsz) must be exactly the non-zero file bytes at their places
\* (file bytes at the virtual address, the rest up to the memory size zero); set comparison keeps this linear
SegFailing(obs, s) ==
  IF ~s.load \/ s.memsz = 0 THEN {}
  ELSE IF Holder(obs, s) = {} THEN {"segment-not-mapped"}
  ELSE LET ar == obs.areas[CHOOSE k \in Holder(obs, s) : TRUE] o == s.vaddr - ar.start
           want == {<<o + j - 1, s.data[j]>> : j \in {jj \in 1..Len(s.data) : s.data[jj] # 0}}
           have == {x \in {ar.nz[i] : i \in 1..Len(ar.nz)} : x[1] >= o /\ x[1] < o + s.memsz} IN
       (IF have # want THEN (IF \E x \in have \ want : x[1] >= o + Len(s.data) THEN {"rest-not-zero"} ELSE {"file-bytes-differ"}) ELSE {})
       \cup (IF ar.prot # s.prot THEN {"permissions-differ"} ELSE {})

Failing(file, obs) ==
  IF obs.k # "ok" THEN {"load-" \o obs.k}
  ELSE UNION {SegFailing(obs, file.segs[i]) : i \in 1..Len(file.segs)}
       \cup (IF obs.rip # file.entry THEN {"entry-point"} ELSE {})
       \cup (IF \E i \in 1..Len(file.syms) : ~obs.resolved[i].some \/ obs.resolved[i].name \notin {file.syms[i].names[j] : j \in 1..Len(file.syms[i].names)} THEN {"symbol-resolution"} ELSE {})
       \cup (IF \E i, j \in 1..Len(obs.areas) : i # j /\ Overlap(obs.areas[i].start, obs.areas[i].len, obs.areas[j].start, obs.areas[j].len)
             THEN {"areas-overlap"} ELSE {})
Post(file, obs) == Failing(file, obs) = {}
=============================================================================
