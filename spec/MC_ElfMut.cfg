CONSTANTS
  Double = FALSE
  DumpEdges = FALSE
INIT Init
NEXT Next
INVARIANT Dump
CHECK_DEADLOCK FALSE
