------------------------------ MODULE Memory ------------------------------
(***************************************************************************)
(* Guest memory of ax: a list of areas (start, length, protection, bytes)  *)
(* with the public memory API and the guest access paths as operations.    *)
(*                                                                         *)
(* Properties C08 (consistent little-endian byte store with strict         *)
(* bounds), C09 (permissions on every access path) and C10 (areas never    *)
(* overlap; allocation / resizing respect existing areas) are stated here. *)
(*                                                                         *)
(* Addresses live in Nat: nothing ever wraps.  The model image of 2^64 is  *)
(* the constant HUGE (TLC integers are 32-bit); the binding maps a u64 v   *)
(* >= 2^64 - 2^29 to HUGE - (2^64 - v), which preserves every comparison   *)
(* the specification makes as long as all areas lie below 2^29.            *)
(*                                                                         *)
(* Style: each operation is a pure operator from (areas, arguments) to the *)
(* set of allowed outcomes [k, areas, v]; MC_Memory wraps them as actions, *)
(* Trace_Memory checks that each logged outcome is a member.               *)
(***************************************************************************)
EXTENDS Naturals, Sequences, FiniteSets

CONSTANT HUGE

PR == 1   PW == 2   PX == 4
HasBit(p, b) == (p \div b) % 2 = 1
RW == 3

Zeros(n) == [i \in 1..n |-> 0]
End(a) == a.start + a.len
\* two ranges share at least one address
Overlap(s1, n1, s2, n2) == n1 > 0 /\ n2 > 0 /\ s1 < s2 + n2 /\ s2 < s1 + n1
NoOverlap(areas) == \A i, j \in 1..Len(areas) :
                       i # j => ~Overlap(areas[i].start, areas[i].len, areas[j].start, areas[j].len)
WellFormed(areas) == \A i \in 1..Len(areas) : Len(areas[i].data) = areas[i].len /\ End(areas[i]) <= HUGE

\* does the new range collide with an area (optionally ignoring area number `skip`)?
Collides(areas, s, n, skip) == \E i \in 1..Len(areas) : i # skip /\ Overlap(s, n, areas[i].start, areas[i].len)
\* the (start) address lies inside some area
Inside(areas, s) == \E i \in 1..Len(areas) : areas[i].start <= s /\ s < End(areas[i])

MkArea(s, data, p) == [start |-> s, len |-> Len(data), prot |-> p, data |-> data]
Ok(ar, v)  == [k |-> "ok",  areas |-> ar, v |-> v]
Err(ar)    == [k |-> "err", areas |-> ar, v |-> <<>>]
NoVal == <<>>

(***************************************************************************)
(* C10 - creation, allocation, resizing, protection                        *)
(***************************************************************************)
\* explicit creation: a request that would overlap an existing area is rejected; a non-empty request that
\* overlaps nothing (and ends at or below 2^64) is accepted; an empty request, or one running past 2^64,
\* may be accepted or rejected (the property is silent) - but an accepted one is recorded faithfully.
InitAreaOutcomes(areas, s, data) ==
  LET n == Len(data)
      acc == Ok(Append(areas, MkArea(s, data, RW)), NoVal)
  IN IF Collides(areas, s, n, 0) THEN {Err(areas)}
     ELSE IF n > 0 /\ s + n <= HUGE THEN {acc}
     ELSE IF s + n <= HUGE THEN {acc, Err(areas)}
     ELSE {Err(areas)} \cup {acc}

\* "anywhere": terminates and returns a fresh range of the requested length holding the supplied bytes.
\* The chosen start is the implementation's; the specification only demands freshness.
FreshAt(areas, s, n) == ~Collides(areas, s, n, 0) /\ s + n <= HUGE
AnywhereOutcome(areas, data, s) == Ok(Append(areas, MkArea(s, data, RW)), s)
AnywhereAllowed(areas, data, o) ==
  /\ o.k = "ok"
  /\ FreshAt(areas, o.v, Len(data))
  /\ o.areas = Append(areas, MkArea(o.v, data, RW))

\* resizing the area that starts at s: succeeds exactly when the new extent collides with no OTHER area,
\* keeps the common prefix and zero-fills growth; protection is kept.
Resized(a, n) == [a EXCEPT !.len = n,
                           !.data = [i \in 1..n |-> IF i <= a.len THEN a.data[i] ELSE 0]]
ResizeOutcomes(areas, s, n) ==
  LET cands == {i \in 1..Len(areas) : areas[i].start = s}
  IN IF cands = {} THEN {Err(areas)}
     ELSE {IF Collides(areas, s, n, i) \/ s + n > HUGE THEN Err(areas)
           ELSE Ok([areas EXCEPT ![i] = Resized(areas[i], n)], NoVal) : i \in cands}

ProtOutcomes(areas, s, p) ==
  LET cands == {i \in 1..Len(areas) : areas[i].start = s}
  IN IF cands = {} \/ p > 7 THEN {Err(areas)}
     ELSE {Ok([areas EXCEPT ![i].prot = p], NoVal) : i \in cands}

(***************************************************************************)
(* C08 / C09 - reads and writes (API and guest), bounds and permissions    *)
(***************************************************************************)
\* areas that contain the whole range [a, a+n)
Holders(areas, a, n) == {i \in 1..Len(areas) : areas[i].start <= a /\ a < End(areas[i]) /\ a + n <= End(areas[i])}
Slice(ar, a, n) == [j \in 1..n |-> ar.data[a - ar.start + j]]
Patched(ar, a, bytes) == [ar EXCEPT !.data = [j \in 1..ar.len |->
                            IF j > a - ar.start /\ j <= a - ar.start + Len(bytes) THEN bytes[j - (a - ar.start)] ELSE ar.data[j]]]

\* a read of n bytes at a needing permission bits `need` (PR for data reads)
ReadOutcomes(areas, a, n, need) ==
  LET hs == {i \in Holders(areas, a, n) : HasBit(areas[i].prot, need)}
  IN IF n = 0 THEN {Ok(areas, <<>>), Err(areas)}        \* zero-length: the property is silent on success
     ELSE IF hs = {} THEN {Err(areas)}                     \* unmapped / past the end / extreme / not permitted
     ELSE {Ok(areas, Slice(areas[i], a, n)) : i \in hs}

\* a write of `bytes` at a (permission PW; a read-modify-write additionally needs PR)
WriteOutcomes(areas, a, bytes, need1, need2) ==
  LET n == Len(bytes)
      hs == {i \in Holders(areas, a, n) : HasBit(areas[i].prot, need1) /\ HasBit(areas[i].prot, need2)}
  IN IF n = 0 THEN {Ok(areas, NoVal), Err(areas)}
     ELSE IF hs = {} THEN {Err(areas)}                     \* a denied / out-of-bounds write changes nothing
     ELSE {Ok([areas EXCEPT ![i] = Patched(areas[i], a, bytes)], NoVal) : i \in hs}

\* may an n-byte access at a with the given permission needs succeed at all?
Accessible(areas, a, n, need1, need2) ==
  \E i \in Holders(areas, a, n) : HasBit(areas[i].prot, need1) /\ HasBit(areas[i].prot, need2)

\* footprint: the only bytes that differ between two area lists lie in [a, a+n) (same shape otherwise)
SameShape(x, y) == /\ Len(x) = Len(y)
                   /\ \A i \in 1..Len(x) : x[i].start = y[i].start /\ x[i].len = y[i].len /\ x[i].prot = y[i].prot
                                            /\ Len(y[i].data) = y[i].len
DiffWithin(x, y, a, n) ==
  /\ SameShape(x, y)
  /\ \A i \in 1..Len(x) : \A j \in 1..x[i].len :
        x[i].data[j] # y[i].data[j] => (x[i].start + j - 1 >= a /\ x[i].start + j - 1 < a + n)

\* instruction fetch at address a: needs execute permission on the area containing a
FetchAllowed(areas, a) == \E i \in 1..Len(areas) : areas[i].start <= a /\ a < End(areas[i]) /\ HasBit(areas[i].prot, PX)
=============================================================================
