CONSTANTS
  Base = 256
  DBits = 8
  RegLen = 8
  ModelRegs = {"RAX","RBX","RCX","RDX","RSI","RDI","RSP","RBP","R8","R9","R10","R11","R12","R13","R14","R15","RIP"}
INIT TraceInit
NEXT TNext
CHECK_DEADLOCK FALSE
