CONSTANTS
  Regs = {"r1", "r2", "r3"}
  Vals = {0, 1, 2}
  MaxSteps = 3
INIT Init
NEXT Next
INVARIANTS C20_Noninterference C20_FullyWritten
CHECK_DEADLOCK FALSE
