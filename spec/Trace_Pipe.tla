---------------------------- MODULE Trace_Pipe ----------------------------
(* Trace validation for Pipe.tla.  Events are guest `syscall` instructions executed by the real Axecutor with the
   built-in pipe handler installed and a user Syscall hook registered after it.  The handler's descriptor tables
   and buffers are logged after every call and adopted; written/readout are history variables of the spec. *)
EXTENDS Pipe, TLC, Json, IOUtils, SequencesExt

Rec == ndJsonDeserialize(IOEnv.TRACE)
VARIABLES l, ends, buf, written, readout
tvars == <<l, ends, buf, written, readout>>
TraceInit == l = 1 /\ ends = {} /\ buf = <<>> /\ written = <<>> /\ readout = <<>>

ObsEnds(e) == {[r |-> e.ends[i][2], w |-> e.ends[i][1]] : i \in 1..Len(e.ends)}      \* logged as (write end, read end)
ObsBuf(e)  == [r \in {e.bufs[i][1] : i \in 1..Len(e.bufs)} |-> (CHOOSE i \in 1..Len(e.bufs) : e.bufs[i][1] = r) ]
ObsBufV(e) == [r \in {e.bufs[i][1] : i \in 1..Len(e.bufs)} |-> e.bufs[CHOOSE i \in 1..Len(e.bufs) : e.bufs[i][1] = r][2]]
\* total view of the logged buffers: a read end without a buffer entry is reported (Lost) and treated as empty
NormBuf(e) == [r \in ReadEnds(ObsEnds(e)) \cup DOMAIN ObsBufV(e) |-> IF r \in DOMAIN ObsBufV(e) THEN ObsBufV(e)[r] ELSE <<>>]
Lost(e) == IF \E p \in ObsEnds(e) : p.r \notin DOMAIN ObsBufV(e) THEN {"pipe-lost-its-buffer"} ELSE {}
Same(e) == ObsEnds(e) = ends /\ NormBuf(e) = buf

\* the destination must take the bytes that are actually delivered (min(request, available)), not the whole request:
\* e.dstroom = number of writable bytes from the destination address to the end of its area (0: unmapped / read-only)
DstOk(e) == ReadCount(buf, e.fd, e.n) <= e.dstroom
Bad(e) ==
  CASE e.ev = "pipe" ->
         IF e.k = "err" /\ Same(e) THEN {}                         \* a refused pipe() (descriptor clash) changes nothing
         ELSE IF e.k # "ok" THEN {"pipe-" \o e.k}
         ELSE LET new == ObsEnds(e) \ ends IN
              IF Cardinality(new) # 1 THEN {"pipe-did-not-create-one-pipe"}
              ELSE LET p == CHOOSE p \in new : TRUE IN
                   (IF ~CreateOK(ends, buf, ObsEnds(e), NormBuf(e), p.r, p.w) THEN {"pipe-descriptors-not-fresh-or-not-empty"} ELSE {})
                   \cup (IF e.memfds # <<p.r, p.w>> THEN {"pipe-descriptors-not-stored"} ELSE {})
                   \cup (IF e.rax # 0 THEN {"pipe-return-value"} ELSE {})
                   \cup (IF e.userhook THEN {"pipe-call-leaked-to-user-hook"} ELSE {})
    [] e.ev = "write" ->
         IF IsPipeWrite(ends, e.fd) THEN
              \* a zero-length write from an unmapped address may succeed (writing nothing) or fail
              IF ~e.srcok /\ Len(e.data) = 0 /\ e.k # "crash" /\ Same(e) THEN {}
              ELSE IF ~e.srcok THEN (IF e.k = "ok" THEN {"write-from-unreadable-memory-ok"} ELSE {}) \cup (IF ~Same(e) THEN {"failed-write-changed-pipes"} ELSE {})
              ELSE (IF e.k # "ok" THEN {"pipe-write-" \o e.k} ELSE {})
                   \cup (IF ObsEnds(e) # ends THEN {"write-changed-descriptors"} ELSE {})
                   \cup (IF e.k = "ok" /\ NormBuf(e) # WriteBuf(ends, buf, e.fd, e.data) THEN {"write-buffer-content"} ELSE {})
                   \cup (IF e.k = "ok" /\ e.rax # Len(e.data) THEN {"write-return-value"} ELSE {})
                   \cup (IF e.userhook THEN {"pipe-call-leaked-to-user-hook"} ELSE {})
         ELSE (IF ~e.userhook THEN {"non-pipe-write-not-left-for-other-hooks"} ELSE {})
              \cup (IF ~Same(e) THEN {"non-pipe-write-changed-pipes"} ELSE {})
    [] e.ev = "read" ->
         IF IsPipeRead(ends, e.fd) THEN
              \* delivering zero bytes to an unwritable destination may succeed or fail
              IF ~e.dstmapped /\ ReadCount(buf, e.fd, e.n) = 0 /\ e.k = "err" /\ Same(e) THEN {}
              ELSE IF ~DstOk(e) /\ ReadCount(buf, e.fd, e.n) > 0 THEN
                   (IF e.k = "ok" THEN {"read-into-unwritable-memory-ok"} ELSE {}) \cup (IF ~Same(e) THEN {"failed-read-changed-pipes"} ELSE {})
              ELSE (IF e.k # "ok" THEN {"pipe-read-" \o e.k} ELSE {})
                   \cup (IF ObsEnds(e) # ends THEN {"read-changed-descriptors"} ELSE {})
                   \cup (IF e.k = "ok" /\ NormBuf(e) # ReadBuf(buf, e.fd, e.n) THEN {"read-buffer-content"} ELSE {})
                   \cup (IF e.k = "ok" /\ e.rax # ReadCount(buf, e.fd, e.n) THEN {"read-return-value"} ELSE {})
                   \cup (IF e.k = "ok" /\ DstOk(e) /\ Take(e.got, ReadCount(buf, e.fd, e.n)) # ReadData(buf, e.fd, e.n) THEN {"read-delivered-bytes"} ELSE {})
                   \cup (IF e.k = "ok" /\ DstOk(e) /\ Drop(e.got, ReadCount(buf, e.fd, e.n)) # Drop(e.before, ReadCount(buf, e.fd, e.n)) THEN {"read-wrote-beyond-count"} ELSE {})
                   \cup (IF e.userhook THEN {"pipe-call-leaked-to-user-hook"} ELSE {})
         ELSE (IF ~e.userhook THEN {"non-pipe-read-not-left-for-other-hooks"} ELSE {})
              \cup (IF ~Same(e) THEN {"non-pipe-read-changed-pipes"} ELSE {})
    [] OTHER -> IF e.k = "crash" THEN {"crash"} ELSE {}

\* history-based FIFO statement, checked on the recorded execution itself
W2(e) == IF e.ev = "write" /\ e.k = "ok" /\ IsPipeWrite(ends, e.fd) /\ e.srcok
         THEN [written EXCEPT ![ReadEndOf(ends, e.fd)] = @ \o e.data] ELSE written
R2(e) == IF e.ev = "read" /\ e.k = "ok" /\ IsPipeRead(ends, e.fd) /\ DstOk(e)
         THEN [readout EXCEPT ![e.fd] = @ \o Take(e.got, Min(e.rax, Len(e.got)))] ELSE readout
Ext(f, dom) == [x \in dom |-> IF x \in DOMAIN f THEN f[x] ELSE <<>>]
FifoBad(e) == LET w == Ext(W2(e), DOMAIN NormBuf(e)) r == Ext(R2(e), DOMAIN NormBuf(e)) IN
              IF \E x \in DOMAIN NormBuf(e) : w[x] # r[x] \o NormBuf(e)[x] THEN {"fifo-stream-broken"} ELSE {}

Next == /\ l <= Len(Rec)
        /\ LET e == Rec[l] b == IF e.hasobs /\ e.ev # "new" THEN Bad(e) \cup FifoBad(e) ELSE (IF e.k = "crash" THEN {"crash"} ELSE {}) IN
             /\ IF b = {} THEN TRUE ELSE PrintT(<<"VERDICT", e.sc, e.i, e.ev, b>>)
             /\ ends' = IF e.ev = "new" THEN {} ELSE IF e.hasobs THEN ObsEnds(e) ELSE ends
             /\ buf' = IF e.ev = "new" THEN <<>> ELSE IF e.hasobs THEN NormBuf(e) ELSE buf
             /\ written' = IF e.ev = "new" THEN <<>> ELSE IF e.hasobs THEN Ext(W2(e), DOMAIN NormBuf(e)) ELSE written
             /\ readout' = IF e.ev = "new" THEN <<>> ELSE IF e.hasobs THEN Ext(R2(e), DOMAIN NormBuf(e)) ELSE readout
        /\ l' = l + 1
Done == l = Len(Rec) + 1 /\ PrintT(<<"TRACE-DONE", Len(Rec)>>) /\ l' = l + 1 /\ UNCHANGED <<ends, buf, written, readout>>
TNext == Next \/ Done
=============================================================================
