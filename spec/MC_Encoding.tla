----------------------------- MODULE MC_Encoding -----------------------------
(* Enumerates every shape class of Encoding.tla (one state per class), checks the grammar's sanity and prints the
   classes for the binding, which fills the free bits at random. *)
EXTENDS Encoding, TLC, Json
CONSTANT DumpEdges
VARIABLE c
Init == c \in Classes
Next == UNCHANGED c
Sane == /\ LenOf(c) >= 1 /\ LenOf(c) <= 21
        /\ (c.imm = 8 => c.mod = "none")
        /\ IF DumpEdges THEN PrintT(<<"EDGE", ToJson(c)>>) ELSE TRUE
=============================================================================
