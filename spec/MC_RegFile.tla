---------------------------- MODULE MC_RegFile ----------------------------
(* Bounded exhaustive exploration of RegFile against ground truth in Nat, plus the
   labelled-edge dump used for model-based testing of the implementation. *)
EXTENDS RegFile, TLC, Json, FiniteSets

CONSTANTS MCNames,     \* register names offered to the API calls in the model
          MaxDepth,    \* number of calls per history
          DumpEdges    \* TRUE: print one JSON line per explored edge

VARIABLES last, hist
vars == <<regs, ret, last, hist>>
View == <<regs, ret>>                      \* history variables do not distinguish states

Val(x)  == LET RECURSIVE V(_)
               V(i) == IF i > Len(x) THEN 0 ELSE x[i] * Base^(i-1) + V(i+1)
           IN V(1)
B(n) == Base ^ n

\* written values: zero, ones exactly filling k digits (k = 1,2,4,8), ones in one digit above the view, a mixed pattern
MCVals == {Zeros(RegLen)} \cup {[i \in 1..RegLen |-> IF i <= k THEN Base - 1 ELSE 0] : k \in {1, 2, 4, RegLen}}
          \cup {[i \in 1..RegLen |-> IF i = k THEN 1 ELSE 0] : k \in {2, 3, 5, RegLen}}
          \cup {[i \in 1..RegLen |-> IF i \in {1, RegLen} THEN 1 ELSE 0]}
          \cup {[i \in 1..RegLen |-> IF i % 2 = 1 THEN 1 ELSE 0]}

\* values derived from what the registers currently hold (idempotent / too-wide re-writes)
CurVals == {ZExt(Trunc(regs[b], k), RegLen) : b \in ModelRegs, k \in {1, 2, 4, RegLen}}

Init == /\ regs = [r \in ModelRegs |-> [i \in 1..RegLen |-> IF (i % 3) = 0 THEN 0 ELSE Base - 1]]
        /\ ret = [k |-> "init", v |-> <<>>]
        /\ last = [op |-> "init"]
        /\ hist = <<>>

Next == /\ Len(hist) < MaxDepth
        /\ \E w \in {8, 16, 32, 64}, v \in MCNames :
             \/ \E val \in MCVals \cup CurVals :
                  /\ Write(w, v, val)
                  /\ last' = [op |-> "reg_write", w |-> w, reg |-> v, val |-> val]
                  /\ hist' = Append(hist, last')
             \/ /\ Read(w, v)
                /\ last' = [op |-> "reg_read", w |-> w, reg |-> v]
                /\ hist' = Append(hist, last')

(* ---- ground truth (the property, in arithmetic on the 64-bit values) ---- *)
IsView(w, v) == \/ v \in GprViews /\ WidthOf(v) = w
                \/ w = 64 /\ v = "RIP"
WriteLaw ==
  last'.op = "reg_write" =>
    LET w == last'.w v == last'.reg x == Val(last'.val) n == DigitsOf(w) IN
    IF IsView(w, v) /\ x < B(n) /\ BaseOf(v) \in ModelRegs
    THEN LET b == BaseOf(v) old == Val(regs[b]) new == Val(regs'[b]) IN
         /\ ret'.k = "ok"
         /\ new = (CASE v \in High8 -> old - ((old \div B(1)) % B(1)) * B(1) + x * B(1)
                     [] w = 8 /\ v \notin High8 -> old - (old % B(1)) + x
                     [] w = 16 -> old - (old % B(2)) + x            \* upper 48 bits preserved
                     [] w = 32 -> x                                  \* upper 32 bits zeroed
                     [] w = 64 -> x)
         /\ \A r \in ModelRegs \ {b} : regs'[r] = regs[r]            \* every other register untouched
    ELSE ret'.k = "err" /\ regs' = regs                              \* rejected without modifying state
ReadLaw ==
  last'.op = "reg_read" =>
    LET w == last'.w v == last'.reg n == DigitsOf(w) IN
    /\ regs' = regs
    /\ IF IsView(w, v) /\ BaseOf(v) \in ModelRegs
       THEN LET old == Val(regs[BaseOf(v)]) IN
            /\ ret'.k = "ok"
            /\ Val(ret'.v) = (old \div B(OffOf(v))) % B(n)
       ELSE ret'.k = "err"

\* evaluated on every explored edge (ACTION_CONSTRAINT): laws are asserted, edges optionally dumped
EdgeCheck ==
  /\ Assert(WriteLaw, <<"WriteLaw violated", last'>>)
  /\ Assert(ReadLaw, <<"ReadLaw violated", last'>>)
  /\ IF DumpEdges THEN PrintT(<<"EDGE", ToJson([hist |-> hist', ret |-> ret'.k])>>) ELSE TRUE
=============================================================================
