CONSTANTS
  Base = 256
  DBits = 8
  RegLen = 8
  Dev = FALSE
  MaxSteps = 4
INIT Init
NEXT Next
CHECK_DEADLOCK FALSE
