CONSTANTS
  Regs = {"r1", "r2"}
  Vals = {0, 1, 2, 3}
  MaxSteps = 3
INIT Init
NEXT Next
INVARIANTS C20_Noninterference C20_SameOutcome
CHECK_DEADLOCK FALSE
