----------------------------- MODULE RegViews -----------------------------
(***************************************************************************)
(* The x86-64 general-purpose register file as seen through ax's public    *)
(* register API (reg_read_8/16/32/64, reg_write_8/16/32/64).               *)
(*                                                                         *)
(* A 64-bit register is a little-endian sequence of RegLen digits (8 bytes *)
(* when Base = 256).  A view is (base register, first digit, #digits).     *)
(* One action per public call; the call's result is part of the action.    *)
(***************************************************************************)
EXTENDS BV

CONSTANT RegLen        \* digits per 64-bit register: 8 for Base = 256; MC uses the same 8 with a tiny Base

Gpr64 == {"RAX","RBX","RCX","RDX","RSI","RDI","RSP","RBP","R8","R9","R10","R11","R12","R13","R14","R15"}
AllRegs == Gpr64 \cup {"RIP"}

\* digits of the four widths (a "byte" is one digit)
D8 == 1   D16 == 2   D32 == 4   D64 == RegLen
DigitsOf(w) == CASE w = 8 -> D8 [] w = 16 -> D16 [] w = 32 -> D32 [] w = 64 -> D64

Base64 ==
  [AL |-> "RAX", BL |-> "RBX", CL |-> "RCX", DL |-> "RDX", AH |-> "RAX", BH |-> "RBX", CH |-> "RCX", DH |-> "RDX",
   SIL |-> "RSI", DIL |-> "RDI", SPL |-> "RSP", BPL |-> "RBP",
   R8L |-> "R8", R9L |-> "R9", R10L |-> "R10", R11L |-> "R11", R12L |-> "R12", R13L |-> "R13", R14L |-> "R14", R15L |-> "R15",
   AX |-> "RAX", BX |-> "RBX", CX |-> "RCX", DX |-> "RDX", SI |-> "RSI", DI |-> "RDI", SP |-> "RSP", BP |-> "RBP",
   R8W |-> "R8", R9W |-> "R9", R10W |-> "R10", R11W |-> "R11", R12W |-> "R12", R13W |-> "R13", R14W |-> "R14", R15W |-> "R15",
   EAX |-> "RAX", EBX |-> "RBX", ECX |-> "RCX", EDX |-> "RDX", ESI |-> "RSI", EDI |-> "RDI", ESP |-> "RSP", EBP |-> "RBP",
   R8D |-> "R8", R9D |-> "R9", R10D |-> "R10", R11D |-> "R11", R12D |-> "R12", R13D |-> "R13", R14D |-> "R14", R15D |-> "R15",
   RAX |-> "RAX", RBX |-> "RBX", RCX |-> "RCX", RDX |-> "RDX", RSI |-> "RSI", RDI |-> "RDI", RSP |-> "RSP", RBP |-> "RBP",
   R8 |-> "R8", R9 |-> "R9", R10 |-> "R10", R11 |-> "R11", R12 |-> "R12", R13 |-> "R13", R14 |-> "R14", R15 |-> "R15"]

High8 == {"AH","BH","CH","DH"}
Low8  == {"AL","BL","CL","DL","SIL","DIL","SPL","BPL","R8L","R9L","R10L","R11L","R12L","R13L","R14L","R15L"}
V8  == Low8 \cup High8
V16 == {"AX","BX","CX","DX","SI","DI","SP","BP","R8W","R9W","R10W","R11W","R12W","R13W","R14W","R15W"}
V32 == {"EAX","EBX","ECX","EDX","ESI","EDI","ESP","EBP","R8D","R9D","R10D","R11D","R12D","R13D","R14D","R15D"}
V64 == Gpr64
GprViews == V8 \cup V16 \cup V32 \cup V64            \* the 68 views
\* names the API type admits but that are not general-purpose views
OtherNames == {"RIP","EIP"} \cup {"XMM0","XMM1","XMM2","XMM3","XMM4","XMM5","XMM6","XMM7",
                                  "XMM8","XMM9","XMM10","XMM11","XMM12","XMM13","XMM14","XMM15"}
Names == GprViews \cup OtherNames

WidthOf(v) == IF v \in V8 THEN 8 ELSE IF v \in V16 THEN 16 ELSE IF v \in V32 THEN 32 ELSE 64
OffOf(v)   == IF v \in High8 THEN 1 ELSE 0                 \* first digit (0-based) of the view

\* which names a w-bit accessor accepts: the GPR views of that width; the 64-bit accessors also take RIP
Accepts(w, v) == \/ (v \in GprViews /\ WidthOf(v) = w)
                 \/ (w = 64 /\ v = "RIP")
BaseOf(v) == IF v = "RIP" THEN "RIP" ELSE Base64[v]

\* pure view semantics on a register file  rf : AllRegs -> digit sequence of length RegLen
ReadView(rf, v) ==
  LET r == rf[BaseOf(v)] o == OffOf(v) n == DigitsOf(IF v = "RIP" THEN 64 ELSE WidthOf(v))
  IN [i \in 1..n |-> r[o + i]]

\* value: a digit sequence of exactly the view's length
WriteView(rf, v, val) ==
  LET b == BaseOf(v) r == rf[b] o == OffOf(v)
      w == IF v = "RIP" THEN 64 ELSE WidthOf(v)
      n == DigitsOf(w)
      nr == [i \in 1..RegLen |->
               IF i > o /\ i <= o + n THEN val[i - o]
               ELSE IF w = 32 THEN 0                      \* 32-bit writes zero the upper half
               ELSE r[i]]
  IN [rf EXCEPT ![b] = nr]

\* the API passes a 64-bit value; it fits a w-bit view iff the digits above the view are zero
Fits(val, w) == \A i \in (DigitsOf(w) + 1)..RegLen : val[i] = 0
=============================================================================
