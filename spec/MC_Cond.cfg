CONSTANTS
  Base = 4
  DBits = 2
  RegLen = 8
INIT Init
NEXT Next
INVARIANTS Complements AfterCmp
CHECK_DEADLOCK FALSE
