INIT TraceInit
NEXT TNext
CHECK_DEADLOCK FALSE
