CONSTANTS
  Base = 256
  DBits = 8
  RegLen = 8
INIT TraceInit
NEXT TNext
CHECK_DEADLOCK FALSE
