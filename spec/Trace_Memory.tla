--------------------------- MODULE Trace_Memory ---------------------------
(* Trace validation for Memory.tla: every recorded memory-API call and annotated guest access of the
   real Axecutor must have an outcome the specification allows.  The area list (with bytes) is logged
   after every call; the pre-state of an event is the logged post-state of the previous event. *)
EXTENDS Memory, TLC, Json, IOUtils

Rec == ndJsonDeserialize(IOEnv.TRACE)

VARIABLES l, areas
tvars == <<l, areas>>

TraceInit == l = 1 /\ areas = <<>>

Out(e) == [k |-> e.k, areas |-> e.areas]
Strip(S) == {[k |-> o.k, areas |-> o.areas] : o \in S}

\* component labels of what is wrong with event e in pre-state `areas` ({} = allowed)
Bad(e) ==
  CASE e.ev \in {"mem_init_area", "mem_init_zero"} ->
         IF Out(e) \in Strip(InitAreaOutcomes(areas, e.start, e.data)) THEN {}
         ELSE IF e.k = "ok" /\ Collides(areas, e.start, Len(e.data), 0) THEN {"overlap-accepted"}
         ELSE IF e.k = "ok" THEN {"created-wrong"}
         ELSE IF e.k = "err" /\ e.areas # areas THEN {"rejected-but-changed"}
         ELSE {"rejected-" \o e.k}
    [] e.ev \in {"mem_init_anywhere", "mem_init_zero_anywhere", "init_stack"} ->
         IF AnywhereAllowed(areas, e.data, [k |-> e.k, v |-> e.ret, areas |-> e.areas]) THEN {}
         ELSE IF e.k # "ok" THEN {"anywhere-" \o e.k}
         ELSE IF ~FreshAt(areas, e.ret, Len(e.data)) THEN {"anywhere-not-fresh"}
         ELSE {"anywhere-wrong-area"}
    [] e.ev = "mem_resize_section" ->
         IF Out(e) \in Strip(ResizeOutcomes(areas, e.start, e.new)) THEN {}
         ELSE IF e.k = "err" /\ e.areas = areas THEN {"resize-refused"}
         ELSE IF e.k = "ok" /\ \A o \in ResizeOutcomes(areas, e.start, e.new) : o.k = "err" THEN {"resize-collision-accepted"}
         ELSE {"resize-wrong-" \o e.k}
    [] e.ev = "mem_prot" ->
         IF Out(e) \in Strip(ProtOutcomes(areas, e.start, e.prot)) THEN {} ELSE {"prot-" \o e.k}
    [] e.ev = "read" ->
         LET S == ReadOutcomes(areas, e.addr, e.n, PR) IN
         IF e.areas # areas THEN {"read-changed-memory"}
         ELSE IF [k |-> e.k, areas |-> e.areas, v |-> e.rv] \in S THEN {}
         ELSE IF e.k = "ok" /\ \A o \in S : o.k = "err" THEN
                 (IF Holders(areas, e.addr, e.n) # {} THEN {"read-permission-ignored"} ELSE {"read-out-of-bounds-accepted"})
         ELSE IF e.k = "ok" THEN {"read-wrong-bytes"}
         ELSE {"read-" \o e.k}
    [] e.ev = "write" ->
         LET S == IF e.toolarge THEN {Err(areas)} ELSE WriteOutcomes(areas, e.addr, e.data, PW, PW) IN
         IF Out(e) \in Strip(S) THEN {}
         ELSE IF e.k # "ok" /\ e.areas # areas THEN {"failed-write-changed-memory"}
         ELSE IF e.k = "ok" /\ \A o \in S : o.k = "err" THEN
                 (IF e.toolarge THEN {"oversized-value-accepted"}
                  ELSE IF Holders(areas, e.addr, Len(e.data)) # {} THEN {"write-permission-ignored"}
                  ELSE {"write-out-of-bounds-accepted"})
         ELSE IF e.k = "ok" THEN {"write-wrong-footprint"}
         ELSE {"write-" \o e.k}
    [] e.ev = "guest" ->
         CASE e.gk = "load" ->
                IF e.areas # areas THEN {"load-changed-memory"}
                ELSE IF e.k = "ok" /\ ~Accessible(areas, e.addr, e.n, PR, PR) THEN
                       (IF Holders(areas, e.addr, e.n) # {} THEN {"load-permission-ignored"} ELSE {"load-out-of-bounds-accepted"})
                ELSE IF e.k # "ok" /\ Accessible(areas, e.addr, e.n, PR, PR) THEN {"load-" \o e.k}
                ELSE IF e.k = "ok" /\ e.rv # <<>> /\ ~([k |-> "ok", areas |-> areas, v |-> e.rv] \in ReadOutcomes(areas, e.addr, e.n, PR))
                     THEN {"load-wrong-bytes"}
                ELSE {}
           [] e.gk = "store" ->
                \* a guest store needs write permission.  Whether it may ALSO insist on read permission is left open:
                \* x86 cannot express write-only pages, so there is no hardware answer, and the property only says
                \* that writes need write permission (ax's MOV reads its destination first and refuses).
                LET S0 == WriteOutcomes(areas, e.addr, e.data, PW, PW)
                    S == IF Accessible(areas, e.addr, Len(e.data), PR, PR) THEN S0 ELSE S0 \cup {Err(areas)} IN
                IF Out(e) \in Strip(S) THEN {}
                ELSE IF e.k # "ok" /\ e.areas # areas THEN {"failed-store-changed-memory"}
                ELSE IF e.k = "ok" /\ \A o \in S : o.k = "err" THEN
                       (IF Holders(areas, e.addr, Len(e.data)) # {} THEN {"store-permission-ignored"} ELSE {"store-out-of-bounds-accepted"})
                ELSE IF e.k = "ok" THEN {"store-wrong-footprint"}
                ELSE {"store-" \o e.k}
           [] e.gk = "rmw" ->
                LET can == Accessible(areas, e.addr, e.n, PR, PW) IN
                IF e.k = "ok" /\ ~can THEN
                     (IF Holders(areas, e.addr, e.n) # {} THEN {"rmw-permission-ignored"} ELSE {"rmw-out-of-bounds-accepted"})
                ELSE IF e.k # "ok" /\ can THEN {"rmw-" \o e.k}
                ELSE IF e.k # "ok" /\ e.areas # areas THEN {"failed-rmw-changed-memory"}
                ELSE IF e.k = "ok" /\ ~DiffWithin(areas, e.areas, e.addr, e.n) THEN {"rmw-wrong-footprint"}
                ELSE {}
           [] e.gk = "push" ->
                \* the implicit store of PUSH / CALL.  e.addr = RSP - 8, e.n = 16: the slot is [RSP-8, RSP) on hardware and
                \* [RSP, RSP+8) under ax's documented stack convention (KNOWN_FINDINGS C04).  Either convention is accepted,
                \* but the store must lie completely inside ONE writable area and change nothing outside its slot.
                LET hwok == Accessible(areas, e.addr, 8, PW, PW)
                    axok == Accessible(areas, e.addr + 8, 8, PW, PW) IN
                IF e.k = "ok" THEN
                     IF \/ hwok /\ DiffWithin(areas, e.areas, e.addr, 8)
                        \/ axok /\ DiffWithin(areas, e.areas, e.addr + 8, 8) THEN {}
                     ELSE IF hwok \/ axok THEN {"push-wrong-footprint"}
                     ELSE IF Holders(areas, e.addr, 8) # {} \/ Holders(areas, e.addr + 8, 8) # {} THEN {"push-permission-ignored"}
                     ELSE {"push-out-of-bounds-accepted"}
                ELSE IF hwok /\ axok THEN {"push-" \o e.k}
                ELSE IF e.areas # areas THEN {"failed-push-changed-memory"}
                ELSE {}
           [] e.gk = "fetch" ->
                IF e.k = "ok" /\ ~FetchAllowed(areas, e.addr) THEN {"fetch-permission-ignored"}
                ELSE IF e.k = "crash" THEN {"fetch-crash"}
                ELSE IF e.k # "ok" /\ e.areas # areas THEN {"failed-fetch-changed-memory"}
                ELSE IF e.k # "ok" /\ FetchAllowed(areas, e.addr) /\ e.mustrun THEN {"fetch-refused"}
                ELSE {}
           [] OTHER -> {}
    [] OTHER -> {}

\* C10 as a state invariant on the observed area list, reported once when it first breaks
OverlapNow(e) == IF NoOverlap(areas) /\ ~NoOverlap(e.areas) THEN {"areas-overlap"} ELSE {}

Next == /\ l <= Len(Rec)
        /\ LET e == Rec[l]
               \* a machine built from an ELF image: the scenario knows the segments it wrote into the file; each must be an area
               \* with the permissions of its flags (C09: "loaded from an ELF text segment therefore cannot be modified")
               bn == IF e.ev = "new" /\ e.hasobs /\ e.k = "ok"
                     THEN (IF \A j \in 1..Len(e.exp) : \E i \in 1..Len(e.areas) : e.areas[i].start = e.exp[j][1] /\ e.areas[i].prot = e.exp[j][2]
                           THEN {} ELSE {"elf-segment-permissions"})
                     ELSE {}
               b == IF e.hasobs /\ e.ev # "new" THEN Bad(e) \cup OverlapNow(e) ELSE (IF e.k = "crash" THEN {"crash"} ELSE bn) IN
             /\ IF b = {} THEN TRUE ELSE PrintT(<<"VERDICT", e.sc, e.i, e.ev, b>>)
             /\ areas' = IF e.hasobs THEN e.areas ELSE areas
        /\ l' = l + 1

Done == l = Len(Rec) + 1 /\ PrintT(<<"TRACE-DONE", Len(Rec)>>) /\ l' = l + 1 /\ UNCHANGED areas
TNext == Next \/ Done
=============================================================================
