----------------------------- MODULE MC_Exec -----------------------------
(* Bounded exhaustive exploration of Exec.tla: every abstract program of N slots over the alphabet
   {plain, jmp t, je t (taken), jne t (not taken), call t, ret, pop, fault}, every instruction limit, every
   interleaving of step / execute / extra steps; or (HookMode = "menu") every sequence of up to MaxHooks hooks
   from a menu of outcomes around a fixed program.  The step relation is the one Trace_Exec applies to the
   real code; here it is run by a reference "machine" (hooks in registration order) and the properties
   C11 / C12 / C18 are checked as invariants and on every edge. *)
EXTENDS Exec, TLC, Json

CONSTANTS N, MaxCalls, HookMode, MaxHooks, DumpEdges

Slots == 0..(N - 1)
Tgts  == 0..N                       \* N = code end
Alphabet == {[kind |-> "plain", tgt |-> 0, cc |-> "", mnem |-> "Nop"], [kind |-> "ret", tgt |-> 0, cc |-> "", mnem |-> "Ret"],
             [kind |-> "fault", tgt |-> 0, cc |-> "", mnem |-> "Mov"], [kind |-> "pop", tgt |-> 0, cc |-> "", mnem |-> "Pop"]}
            \cup {[kind |-> "jmp", tgt |-> t, cc |-> "", mnem |-> "Jmp"] : t \in Tgts}
            \cup {[kind |-> "jcc", tgt |-> t, cc |-> "e", mnem |-> "Je"] : t \in Tgts}
            \cup {[kind |-> "jcc", tgt |-> t, cc |-> "ne", mnem |-> "Jne"] : t \in Tgts}
            \cup {[kind |-> "call", tgt |-> t, cc |-> "", mnem |-> "Call"] : t \in Tgts}
Limits == {NoLimit, 0, 1, 2, 3}
FL == [cf |-> 0, pf |-> 0, zf |-> 1, sf |-> 0, of |-> 0, rcxz |-> 0, ecxz |-> 0]     \* ZF = 1: je taken, jne not

HookMenu == {[when |-> w, mnem |-> m, ret |-> r, stop |-> st] :
               w \in {"before", "after"}, m \in {"Nop", "Jmp"}, r \in {"unhandled", "handled", "error"}, st \in BOOLEAN}
PlainProg == [i \in Slots |-> [kind |-> "plain", tgt |-> 0, cc |-> "", mnem |-> "Nop"]]

VARIABLES prog, s, flow, log, stack, hooks, lastcalls, nsucc, stopped, toplevel, last, hist,
          popped     \* a POP has discarded a return address: the record of calls and the stack are out of step from here on
vars == <<prog, s, flow, log, stack, hooks, lastcalls, nsucc, stopped, toplevel, last, hist, popped>>
View == <<prog, s, flow, log, stack, hooks, stopped, toplevel, popped>>

Ann(ip) == LET x == prog[ip] IN
  [kind |-> x.kind, ip |-> ip, next |-> ip + 1, cc |-> x.cc, mnem |-> x.mnem,
   target |-> IF x.kind = "ret" THEN (IF stack = <<>> THEN 0 ELSE stack[Len(stack)]) ELSE x.tgt]

Init ==
  /\ IF HookMode = "none" THEN prog \in [Slots -> Alphabet] /\ hooks = <<>>
     ELSE /\ prog = PlainProg
          /\ \E n \in 0..MaxHooks : \E hs \in [1..n -> HookMenu] :
                hooks = [i \in 1..n |-> [hid |-> i, when |-> hs[i].when, mnem |-> hs[i].mnem, ret |-> hs[i].ret, stop |-> hs[i].stop]]
  /\ \E m \in Limits : s = [rip |-> 0, count |-> 0, finished |-> FALSE, max |-> m, code_end |-> N, hasstack |-> TRUE, depth |-> 0]
  /\ flow = <<[ip |-> 0 - 1, target |-> 0, var |-> "call"]>>
  /\ log = AddTrace(<<>>, [ip |-> 0 - 1, target |-> 0, var |-> "call"])
  /\ stack = <<>> /\ lastcalls = <<>> /\ nsucc = 0 /\ stopped = FALSE /\ toplevel = FALSE
  /\ last = [op |-> "init"] /\ hist = <<>> /\ popped = FALSE

\* the reference machine runs the hooks of a phase in registration order until one ends the chain
RECURSIVE RunChain(_, _)
RunChain(H, i) == IF i > Len(H) THEN <<>>
                  ELSE IF Ends(H[i]) THEN <<H[i].hid>> ELSE <<H[i].hid>> \o RunChain(H, i + 1)

\* one step of the reference machine: returns [s, flow, log, stack, res, calls, stopped, toplevel]
StepM(st, fw, lg, sk) ==
  LET g == Gate(st) IN
  IF g # "go" \/ st.rip \notin Slots THEN [s |-> st, flow |-> fw, log |-> lg, stack |-> sk, res |-> "err", calls |-> <<>>, stop |-> FALSE, top |-> FALSE, pop |-> FALSE]
  ELSE
  LET a == [Ann(st.rip) EXCEPT !.target = IF prog[st.rip].kind = "ret" THEN (IF sk = <<>> THEN 0 ELSE sk[Len(sk)]) ELSE prog[st.rip].tgt,
                              \* a POP above the initial stack level reads memory the model does not describe: treated as a fault
                              !.kind = IF prog[st.rip].kind = "pop" /\ sk = <<>> THEN "fault" ELSE prog[st.rip].kind]
      HB == HooksFor(hooks, a.mnem, "before")
      HA == HooksFor(hooks, a.mnem, "after")
      LB == RunChain(HB, 1)
      rb == PhaseResult(LB, HB)
      cb == [i \in 1..Len(LB) |-> [hid |-> LB[i], when |-> "before"]]
  IN
  IF rb = "error" THEN [s |-> st, flow |-> fw, log |-> lg, stack |-> sk, res |-> "err", calls |-> cb, stop |-> FALSE, top |-> FALSE, pop |-> FALSE]
  ELSE IF ~Completes(a) THEN [s |-> [st EXCEPT !.finished = (rb = "stop")], flow |-> fw, log |-> lg, stack |-> sk, res |-> "err", calls |-> cb, stop |-> rb = "stop", top |-> FALSE, pop |-> FALSE]
  ELSE
  LET s2 == Effect(st, a, FL)
      fe == FlowEvent(st, a, FL)
      fw2 == fw \o fe
      lg2 == IF fe = <<>> THEN lg ELSE AddTrace(lg, fe[1])
      sk2 == IF a.kind = "call" THEN Append(sk, a.next)
             ELSE IF (a.kind = "pop" \/ (a.kind = "ret" /\ ~TopLevelRet(st, a))) /\ sk # <<>> THEN SubSeq(sk, 1, Len(sk) - 1) ELSE sk
      LA == RunChain(HA, 1)
      ra == PhaseResult(LA, HA)
      ca == [i \in 1..Len(LA) |-> [hid |-> LA[i], when |-> "after"]]
      stp == rb = "stop" \/ ra = "stop"
      s3 == IF stp THEN [s2 EXCEPT !.finished = TRUE] ELSE s2
  IN [s |-> s3, flow |-> fw2, log |-> lg2, stack |-> sk2, res |-> IF ra = "error" THEN "err" ELSE "ok",
      calls |-> cb \o ca, stop |-> stp, top |-> TopLevelRet(st, a), pop |-> a.kind = "pop"]

Apply(r, op) ==
  /\ s' = r.s /\ flow' = r.flow /\ log' = r.log /\ stack' = r.stack
  /\ lastcalls' = r.calls
  /\ nsucc' = nsucc + (r.s.count - s.count)
  /\ stopped' = (stopped \/ r.stop) /\ toplevel' = (toplevel \/ r.top) /\ popped' = (popped \/ r.pop)
  /\ last' = [op |-> op, res |-> r.res] /\ hist' = Append(hist, [op |-> op, res |-> r.res])

Step == /\ Len(stack) <= MaxCalls
        /\ Apply(StepM(s, flow, log, stack), "step")

\* execute = step until a step fails or reports "stop"; fuel makes the definition total for the model checker
RECURSIVE RunM(_, _, _, _, _)
RunM(st, fw, lg, sk, fuel) ==
  LET r == StepM(st, fw, lg, sk) IN
  IF r.res = "err" \/ r.s.finished \/ fuel = 0 \/ Len(r.stack) > MaxCalls THEN [r EXCEPT !.calls = <<>>]
  ELSE LET q == RunM(r.s, r.flow, r.log, r.stack, fuel - 1) IN [q EXCEPT !.pop = q.pop \/ r.pop, !.top = q.top \/ r.top]
Fuel == IF s.max = NoLimit THEN 3 * N + 2 ELSE s.max + 1
Execute == /\ Len(stack) <= MaxCalls
           /\ s.max # NoLimit                        \* without a limit a looping program never returns
           /\ Apply(RunM(s, flow, log, stack, Fuel), "execute")

prog_unchanged == prog' = prog /\ hooks' = hooks
Next == /\ Len(hist) < 3 * N + 3
        /\ prog_unchanged
        /\ (Step \/ Execute)

(* ------------------------------ the properties ------------------------------ *)
C11_Count == s.count = nsucc /\ (s.max # NoLimit => s.count <= s.max)
C11_Finished == s.finished <=> (s.rip = N \/ toplevel \/ stopped) \/ (s.count = 0 /\ FALSE)
C18_Log == log = Compress(flow)
C18_Levels == \A i \in 1..Len(log) :
                 log[i].level = LET RECURSIVE D(_)
                                    D(j) == IF j = 0 THEN 0 ELSE D(j - 1) + Delta(log[j].var)
                                IN D(i - 1)
C18_CallStack == Len(CallStack(flow)) >= 0 /\ (toplevel \/ popped \/ Len(CallStack(flow)) = 1 + Len(stack) \/ Len(CallStack(flow)) = Len(stack))
C11_Depth == s.depth = Len(stack)          \* the loop state's stack height is the reference machine's stack

\* on every edge
EdgeLaws ==
  /\ last'.op = "step" =>
       /\ (Gate(s) # "go") => (last'.res = "err" /\ s' = s /\ flow' = flow /\ log' = log /\ lastcalls' = <<>>)   \* fails and changes nothing
       /\ (last'.res = "ok") => s'.count = s.count + 1                                                            \* exactly one instruction
       /\ (last'.res = "ok" /\ ~s'.finished /\ prog[s.rip].kind = "plain") => s'.rip = s.rip + 1
       \* hooks: legal chains, before calls precede after calls, no foreign hooks
       /\ LET m == IF s.rip \in Slots THEN prog[s.rip].mnem ELSE ""
              LB == SelectSeq(lastcalls', LAMBDA c : c.when = "before")
              LA == SelectSeq(lastcalls', LAMBDA c : c.when = "after") IN
            /\ PhaseOK([i \in 1..Len(LB) |-> LB[i].hid], HooksFor(hooks, m, "before")) \/ lastcalls' = <<>>
            /\ (LA # <<>>) => PhaseOK([i \in 1..Len(LA) |-> LA[i].hid], HooksFor(hooks, m, "after"))
            /\ \A i \in 1..Len(lastcalls') : ById(hooks, lastcalls'[i].hid).mnem = m
  /\ last'.op = "execute" =>
       \* running to completion is the same as stepping repeatedly: the result is a fixed point of stepping
       /\ (last'.res = "ok") => s'.finished
       /\ s'.finished \/ last'.res = "err" \/ Len(stack') > MaxCalls
       /\ s.max # NoLimit => s'.count <= s.max

EdgeCheck ==
  /\ Assert(EdgeLaws, <<"EdgeLaws violated", last', s, s'>>)
  /\ IF DumpEdges THEN PrintT(<<"EDGE", ToJson([prog |-> prog, max |-> s.max, hooks |-> hooks, hist |-> hist'])>>) ELSE TRUE
=============================================================================
