-------------------------------- MODULE X86 --------------------------------
(***************************************************************************)
(* Single-instruction semantics of the x86-64 subset ax implements,        *)
(* transcribed from the Intel SDM (not from the Rust code): result, flag   *)
(* effect (defined value | undefined | unaffected), instruction pointer,   *)
(* stack effect, effective address and fault condition, parametric in the  *)
(* operand width.  Properties C01-C06 are judged against Step below; the   *)
(* same relation is validated against executions on a real CPU.            *)
(*                                                                         *)
(* State  st = [r  : 64-bit register name -> 8 bytes (little endian),      *)
(*              x  : XMMn -> 16 bytes,   f : [cf,pf,af,zf,sf,df,of],       *)
(*              fs, gs, rip : 8 bytes,                                     *)
(*              ov : sequence of <<address, bytes>> laid over the pattern  *)
(*                   memory of the fixed guest layout (later wins)]        *)
(* Instruction i = [m : mnemonic, code, len, ops : sequence of operands    *)
(*   [k : "reg"|"mem"|"imm"|"br", r, w, base, index, scale, disp, seg,     *)
(*    asz, v]]                                                             *)
(***************************************************************************)
EXTENDS RegViews, Exec

(* ------------------------------ memory ------------------------------ *)
Areas == << [start |-> 1048576, len |-> 4096, prot |-> 5],     \* CODE  0x100000 R+X
            [start |-> 2097152, len |-> 4096, prot |-> 3],     \* RW1   0x200000
            [start |-> 2105344, len |-> 4096, prot |-> 3],     \* RW2   0x202000 (hole between RW1 and RW2)
            [start |-> 3145728, len |-> 4096, prot |-> 1],     \* RO    0x300000
            [start |-> 4194304, len |-> 4096, prot |-> 3],     \* STK   0x400000
            [start |-> 5242880, len |-> 4096, prot |-> 3] >>   \* GSB   0x500000
Pat(a) == (a * 7 + (a \div 256) * 13 + 5) % 256
HasP(p, b) == (p \div b) % 2 = 1

\* an 8-byte address as an integer of the guest layout's range, or -1 (certainly unmapped).  Only addresses below 2^30 are
\* represented (the guest layout ends at 0x601000), so that address + access size never leaves TLC's 32-bit integers.
ToInt(ea) == IF ea[5] = 0 /\ ea[6] = 0 /\ ea[7] = 0 /\ ea[8] = 0 /\ ea[4] < 64
             THEN ea[1] + 256 * ea[2] + 65536 * ea[3] + 16777216 * ea[4] ELSE 0 - 1
OfInt(n) == [i \in 1..8 |-> IF i > 4 THEN 0 ELSE (n \div (256 ^ (i - 1))) % 256]
\* the fixed guest layout, plus areas a scenario created on top of it (st.xa - e.g. the stack init_stack allocated; optional field)
AreasOf(st) == IF "xa" \in DOMAIN st THEN Areas \o st.xa ELSE Areas
Accessible(st, ea, n, need) ==
  LET a == ToInt(ea) ar == AreasOf(st) IN
  a >= 0 /\ \E k \in 1..Len(ar) : ar[k].start <= a /\ a + n <= ar[k].start + ar[k].len /\ HasP(ar[k].prot, need)
ByteAt(st, a) ==
  LET hits == {k \in 1..Len(st.ov) : a >= st.ov[k][1] /\ a < st.ov[k][1] + Len(st.ov[k][2])} IN
  IF hits = {} THEN Pat(a)
  ELSE LET k == CHOOSE k \in hits : \A j \in hits : j <= k IN st.ov[k][2][a - st.ov[k][1] + 1]
Load(st, ea, n) == [j \in 1..n |-> ByteAt(st, ToInt(ea) + j - 1)]

(* ------------------------------ operands ------------------------------ *)
Z8 == Zeros(8)
Scaled(x, sc) == ShiftL(x, CASE sc = 1 -> 0 [] sc = 2 -> 1 [] sc = 4 -> 2 [] sc = 8 -> 3)
\* offset part of the effective address (no segment base), honouring the address size
EAOff(st, op) ==
  LET b == IF op.base = "" THEN Z8 ELSE st.r[op.base]
      x == IF op.index = "" THEN Z8 ELSE Scaled(st.r[op.index], op.scale)
      raw == Add(Add(b, x), op.disp)
  IN IF op.asz = 32 THEN ZExt(Trunc(raw, 4), 8) ELSE raw
SegBase(st, op) == IF op.seg = "fs" THEN st.fs ELSE IF op.seg = "gs" THEN st.gs ELSE Z8
EA(st, op) == Add(EAOff(st, op), SegBase(st, op))

NB(op) == op.w \div 8
IsX(op) == op.k = "reg" /\ op.w = 128
ReadOp(st, op, n) ==                         \* n = number of bytes wanted
  IF op.k = "imm" THEN Trunc(op.v, n)
  ELSE IF op.k = "mem" THEN Load(st, EA(st, op), n)
  ELSE IF IsX(op) THEN Trunc(st.x[op.r], n)
  ELSE ReadView(st.r, op.r)
ReadFaults(st, op, n) == op.k = "mem" /\ ~Accessible(st, EA(st, op), n, 1)
WriteFaults(st, op, n) == op.k = "mem" /\ ~Accessible(st, EA(st, op), n, 2)

\* effect record
Same == [s |-> "same", v |-> 0]
Undef == [s |-> "undef", v |-> 0]
Def(v) == [s |-> "def", v |-> v]
Bool(b) == IF b THEN 1 ELSE 0
NoFx == [cf |-> Same, pf |-> Same, af |-> Same, zf |-> Same, sf |-> Same, df |-> Same, of |-> Same]
Fault == [out |-> "fault"]
Next8(st, i) == Add(st.rip, OfInt(i.len))
\* a completing instruction: register file, xmm file, memory writes, flag effects, next rip, registers left unspecified
Done(st, i, r, x, mw, fx, rip, any) == [out |-> "ok", r |-> r, x |-> x, mw |-> mw, fx |-> fx, rip |-> rip, any |-> any]

\* write `val` (n bytes) to operand op on top of register file r / xmm file x / write list mw
WR(st, op, val, r)  == IF op.k = "reg" /\ ~IsX(op) THEN WriteView(r, op.r, val) ELSE r
WX(st, op, val, x)  == IF IsX(op) THEN [x EXCEPT ![op.r] = val] ELSE x
WM(st, op, val, mw) == IF op.k = "mem" THEN Append(mw, <<ToInt(EA(st, op)), val>>) ELSE mw

ZSP(res) == [zf |-> Def(Bool(IsZero(res))), sf |-> Def(Msb(res)), pf |-> Def(Parity(res))]
ArithFx(res, cf, of, af) == [cf |-> Def(cf), of |-> Def(of), af |-> Def(af), zf |-> ZSP(res).zf, sf |-> ZSP(res).sf, pf |-> ZSP(res).pf, df |-> Same]
LogicFx(res) == [cf |-> Def(0), of |-> Def(0), af |-> Undef, zf |-> ZSP(res).zf, sf |-> ZSP(res).sf, pf |-> ZSP(res).pf, df |-> Same]

(* ------------------------------ instruction classes ------------------------------ *)
Alu2(st, i) ==
  LET d == i.ops[1] s == i.ops[2] n == NB(d)
      a == ReadOp(st, d, n) b == ReadOp(st, s, n)
      wb == i.m \notin {"cmp", "test"}
      add == AddC(a, b, IF i.m = "adc" THEN st.f.cf ELSE 0)
      sub == SubB(a, b, 0)
      res == CASE i.m \in {"add", "adc"} -> add.r
               [] i.m \in {"sub", "cmp"} -> sub.r
               [] i.m \in {"and", "test"} -> BAnd(a, b)
               [] i.m = "xor" -> BXor(a, b)
      fx == CASE i.m \in {"add", "adc"} -> ArithFx(res, add.c, AddOF(a, b, res), add.ac)
              [] i.m \in {"sub", "cmp"} -> ArithFx(res, sub.c, SubOF(a, b, res), sub.ac)
              [] OTHER -> LogicFx(res)
  IN IF ReadFaults(st, d, n) \/ ReadFaults(st, s, n) \/ (wb /\ WriteFaults(st, d, n)) THEN Fault
     ELSE IF wb THEN Done(st, i, WR(st, d, res, st.r), st.x, WM(st, d, res, <<>>), fx, Next8(st, i), {})
     ELSE Done(st, i, st.r, st.x, <<>>, fx, Next8(st, i), {})

Alu1(st, i) ==
  LET d == i.ops[1] n == NB(d) a == ReadOp(st, d, n)
      one == [j \in 1..n |-> IF j = 1 THEN 1 ELSE 0]
      inc == AddC(a, one, 0) dec == SubB(a, one, 0) neg == SubB(Zeros(n), a, 0)
      res == CASE i.m = "inc" -> inc.r [] i.m = "dec" -> dec.r [] i.m = "neg" -> neg.r [] i.m = "not" -> BNot(a)
      fx == CASE i.m = "inc" -> [ArithFx(res, 0, AddOF(a, one, res), inc.ac) EXCEPT !.cf = Same]
              [] i.m = "dec" -> [ArithFx(res, 0, SubOF(a, one, res), dec.ac) EXCEPT !.cf = Same]
              [] i.m = "neg" -> ArithFx(res, Bool(~IsZero(a)), SubOF(Zeros(n), a, res), neg.ac)
              [] i.m = "not" -> NoFx
  IN IF ReadFaults(st, d, n) \/ WriteFaults(st, d, n) THEN Fault
     ELSE Done(st, i, WR(st, d, res, st.r), st.x, WM(st, d, res, <<>>), fx, Next8(st, i), {})

AccLo(n) == CASE n = 1 -> "AL" [] n = 2 -> "AX" [] n = 4 -> "EAX" [] n = 8 -> "RAX"
AccHi(n) == CASE n = 1 -> "AH" [] n = 2 -> "DX" [] n = 4 -> "EDX" [] n = 8 -> "RDX"
MulFx(c) == [cf |-> Def(c), of |-> Def(c), af |-> Undef, zf |-> Undef, sf |-> Undef, pf |-> Undef, df |-> Same]

Mul1(st, i) ==       \* MUL r/m, IMUL r/m (one operand): rDX:rAX <- rAX * src   (AX <- AL * src for bytes)
  LET s == i.ops[1] n == NB(s)
      a == ReadView(st.r, AccLo(n)) b == ReadOp(st, s, n)
      p == IF i.m = "mul" THEN UMul(a, b) ELSE SMul(a, b)
      lo == Trunc(p, n) hi == Upper(p, n)
      c == IF i.m = "mul" THEN Bool(~IsZero(hi)) ELSE Bool(p # SExt(lo, 2 * n))
      r1 == WriteView(st.r, AccLo(n), lo)
      r2 == WriteView(r1, AccHi(n), hi)
  IN IF ReadFaults(st, s, n) THEN Fault ELSE Done(st, i, r2, st.x, <<>>, MulFx(c), Next8(st, i), {})

Imul23(st, i) ==     \* IMUL r, r/m   and   IMUL r, r/m, imm
  LET d == i.ops[1] n == NB(d)
      a == IF Len(i.ops) = 2 THEN ReadOp(st, d, n) ELSE ReadOp(st, i.ops[2], n)
      b == IF Len(i.ops) = 2 THEN ReadOp(st, i.ops[2], n) ELSE ReadOp(st, i.ops[3], n)
      p == SMul(a, b) lo == Trunc(p, n)
      c == Bool(p # SExt(lo, 2 * n))
  IN IF ReadFaults(st, i.ops[2], n) THEN Fault
     ELSE Done(st, i, WR(st, d, lo, st.r), st.x, <<>>, MulFx(c), Next8(st, i), {})

AllUndef == [cf |-> Undef, of |-> Undef, af |-> Undef, zf |-> Undef, sf |-> Undef, pf |-> Undef, df |-> Same]
\* DIV / IDIV are specified relationally (no division is computed): the quotient must fit, and the observed
\* quotient / remainder (taken from the observed register file obsR) must satisfy the division relation, which
\* determines them uniquely.  If they do not, the expectation is made to differ from the observation.
Div1(st, i, obsR) ==
  LET s == i.ops[1] n == NB(s)
      d == ReadOp(st, s, n)
      num == Cat(ReadView(st.r, AccLo(n)), ReadView(st.r, AccHi(n)))            \* rDX:rAX (AX = AH:AL for bytes)
      signed == i.m = "idiv"
      fits == IF signed THEN SDivFits(num, d) ELSE UDivFits(num, d)
      qo == ReadView(obsR, AccLo(n))
      ro == ReadView(obsR, AccHi(n))
      rel == IF signed THEN SDivRel(num, d, qo, ro) ELSE UDivRel(num, d, qo, ro)
      q == IF rel THEN qo ELSE BNot(qo)
      r1 == WriteView(st.r, AccLo(n), q)
      r2 == WriteView(r1, AccHi(n), ro)
  IN IF ReadFaults(st, s, n) THEN Fault
     ELSE IF IsZero(d) THEN Fault                           \* #DE: divide by zero
     ELSE IF ~fits THEN Fault                               \* #DE: quotient does not fit
     ELSE Done(st, i, r2, st.x, <<>>, AllUndef, Next8(st, i), {})

Shift(st, i) ==
  LET d == i.ops[1] n == NB(d) w == 8 * n
      a == ReadOp(st, d, n)
      raw == IF i.ops[2].k = "imm" THEN i.ops[2].v[1] ELSE st.r["RCX"][1]
      c == raw % (IF w = 64 THEN 64 ELSE 32)
      left == i.m = "shl"
      res == IF left THEN ShiftL(a, c) ELSE ShiftR(a, c)
      cf == IF c > w THEN Undef ELSE IF left THEN Def(Bit(a, w - c)) ELSE Def(Bit(a, c - 1))
      of == IF c # 1 THEN Undef ELSE IF left THEN Def(Bool(Msb(res) # Bit(a, w - 1))) ELSE Def(Msb(a))
      fx == [cf |-> cf, of |-> of, af |-> Undef, zf |-> ZSP(res).zf, sf |-> ZSP(res).sf, pf |-> ZSP(res).pf, df |-> Same]
  IN IF ReadFaults(st, d, n) \/ WriteFaults(st, d, n) THEN Fault
     ELSE IF c = 0 THEN Done(st, i, WR(st, d, a, st.r), st.x, WM(st, d, a, <<>>), NoFx, Next8(st, i), {})   \* masked count 0: flags unaffected
     ELSE Done(st, i, WR(st, d, res, st.r), st.x, WM(st, d, res, <<>>), fx, Next8(st, i), {})

CcOf(m) == CASE m \in {"cmovae", "jae"} -> "ae" [] m \in {"cmove", "sete", "je"} -> "e" [] m \in {"cmovne", "setne", "jne"} -> "ne"
             [] m \in {"setb", "jb"} -> "b" [] m = "ja" -> "a" [] m = "jbe" -> "be" [] m = "jg" -> "g" [] m = "jge" -> "ge"
             [] m = "jl" -> "l" [] m = "jle" -> "le" [] m = "jno" -> "no" [] m = "jnp" -> "np" [] m = "jns" -> "ns" [] m = "jo" -> "o"
             [] m = "jp" -> "p" [] m = "js" -> "s"
FlagsRec(st) == [cf |-> st.f.cf, pf |-> st.f.pf, zf |-> st.f.zf, sf |-> st.f.sf, of |-> st.f.of,
                 rcxz |-> Bool(IsZero(st.r["RCX"])), ecxz |-> Bool(IsZero(Trunc(st.r["RCX"], 4)))]

Mov(st, i) ==
  LET d == i.ops[1] s == i.ops[2] n == NB(d)
      sn == IF s.k = "imm" THEN n ELSE NB(s)
      v0 == ReadOp(st, s, sn)
      v == CASE i.m = "movzx" -> ZExt(v0, n) [] i.m = "movsxd" -> SExt(v0, n) [] OTHER -> v0
  IN IF ReadFaults(st, s, sn) \/ WriteFaults(st, d, n) THEN Fault
     ELSE Done(st, i, WR(st, d, v, st.r), st.x, WM(st, d, v, <<>>), NoFx, Next8(st, i), {})

Lea(st, i) == LET d == i.ops[1] n == NB(d) IN
  Done(st, i, WR(st, d, Trunc(EAOff(st, i.ops[2]), n), st.r), st.x, <<>>, NoFx, Next8(st, i), {})

Cmov(st, i) ==
  LET d == i.ops[1] s == i.ops[2] n == NB(d)
      v == IF Cond(CcOf(i.m), FlagsRec(st)) THEN ReadOp(st, s, n) ELSE ReadOp(st, d, n)     \* a 32-bit destination is written (zero-extended) either way
  IN IF ReadFaults(st, s, n) THEN Fault
     ELSE Done(st, i, WR(st, d, v, st.r), st.x, <<>>, NoFx, Next8(st, i), {})

Setcc(st, i) ==
  LET d == i.ops[1] v == <<Bool(Cond(CcOf(i.m), FlagsRec(st)))>>
  IN IF WriteFaults(st, d, 1) THEN Fault
     ELSE Done(st, i, WR(st, d, v, st.r), st.x, WM(st, d, v, <<>>), NoFx, Next8(st, i), {})

SignFill(a, n) == IF Msb(a) = 1 THEN Ones(n) ELSE Zeros(n)
Conv(st, i) ==
  CASE i.m = "cwd"  -> Done(st, i, WriteView(st.r, "DX", SignFill(ReadView(st.r, "AX"), 2)), st.x, <<>>, NoFx, Next8(st, i), {})
    [] i.m = "cdq"  -> Done(st, i, WriteView(st.r, "EDX", SignFill(ReadView(st.r, "EAX"), 4)), st.x, <<>>, NoFx, Next8(st, i), {})
    [] i.m = "cqo"  -> Done(st, i, WriteView(st.r, "RDX", SignFill(st.r["RAX"], 8)), st.x, <<>>, NoFx, Next8(st, i), {})
    [] i.m = "cdqe" -> Done(st, i, WriteView(st.r, "RAX", SExt(ReadView(st.r, "EAX"), 8)), st.x, <<>>, NoFx, Next8(st, i), {})

Simd(st, i) ==
  LET d == i.ops[1] s == i.ops[2] IN
  CASE i.m = "movups" ->
         IF ReadFaults(st, s, 16) \/ WriteFaults(st, d, 16) THEN Fault
         ELSE LET v == ReadOp(st, s, 16) IN Done(st, i, st.r, WX(st, d, v, st.x), WM(st, d, v, <<>>), NoFx, Next8(st, i), {})
    [] i.m = "xorps" ->
         IF s.k = "mem" /\ EA(st, s)[1] % 16 # 0 THEN Fault              \* #GP: misaligned 128-bit operand
         ELSE IF ReadFaults(st, s, 16) THEN Fault
         ELSE Done(st, i, st.r, WX(st, d, BXor(st.x[d.r], ReadOp(st, s, 16)), st.x), <<>>, NoFx, Next8(st, i), {})
    [] i.m = "movd" ->
         IF IsX(d) THEN (IF ReadFaults(st, s, 4) THEN Fault
                         ELSE Done(st, i, st.r, WX(st, d, ZExt(ReadOp(st, s, 4), 16), st.x), <<>>, NoFx, Next8(st, i), {}))
         ELSE (IF WriteFaults(st, d, 4) THEN Fault
               ELSE LET v == Trunc(st.x[s.r], 4) IN Done(st, i, WR(st, d, v, st.r), st.x, WM(st, d, v, <<>>), NoFx, Next8(st, i), {}))

(* ------------------------------ control flow and stack ------------------------------ *)
Tgt(st, op, n) == IF op.k = "br" THEN op.v ELSE ReadOp(st, op, 8)
Sub8(a, k) == Sub(a, OfInt(k))
Add8(a, k) == Add(a, OfInt(k))
Jcc(st, i) ==
  LET cc == IF i.m = "jrcxz" THEN "rcxz" ELSE IF i.m = "jecxz" THEN "ecxz" ELSE CcOf(i.m) IN
  Done(st, i, st.r, st.x, <<>>, NoFx, IF Cond(cc, FlagsRec(st)) THEN i.ops[1].v ELSE Next8(st, i), {})
Jmp(st, i) == IF ReadFaults(st, i.ops[1], 8) THEN Fault
              ELSE Done(st, i, st.r, st.x, <<>>, NoFx, Tgt(st, i.ops[1], 8), {})

\* `dev` selects ax's known stack convention (KNOWN_FINDINGS C04): store at the old RSP and then decrement;
\* increment and then load.  dev = FALSE is the architecture.
Call(st, i, dev) ==
  LET rsp == st.r["RSP"] new == Sub8(rsp, 8) slot == IF dev THEN rsp ELSE new IN
  IF ReadFaults(st, i.ops[1], 8) \/ ~Accessible(st, slot, 8, 2) THEN Fault
  ELSE Done(st, i, [st.r EXCEPT !["RSP"] = new], st.x, <<<<ToInt(slot), Next8(st, i)>>>>, NoFx, Tgt(st, i.ops[1], 8), {})
Ret(st, i, dev) ==
  LET rsp == st.r["RSP"] new == Add8(rsp, 8) slot == IF dev THEN new ELSE rsp IN
  IF ~Accessible(st, slot, 8, 1) THEN Fault
  ELSE Done(st, i, [st.r EXCEPT !["RSP"] = new], st.x, <<>>, NoFx, Load(st, slot, 8), {})
Push(st, i, dev) ==
  LET s == i.ops[1]
      n == IF s.k = "imm" THEN (IF i.code \in {"Pushw_imm8", "Push_imm16"} THEN 2 ELSE 8) ELSE NB(s)
      v == ReadOp(st, s, n)
      rsp == st.r["RSP"] new == Sub8(rsp, n) slot == IF dev THEN rsp ELSE new
  IN IF ReadFaults(st, s, n) \/ ~Accessible(st, slot, n, 2) THEN Fault
     ELSE Done(st, i, [st.r EXCEPT !["RSP"] = new], st.x, <<<<ToInt(slot), v>>>>, NoFx, Next8(st, i), {})
Pop(st, i, dev) ==
  LET d == i.ops[1] n == NB(d)
      rsp == st.r["RSP"] new == Add8(rsp, n) slot == IF dev THEN new ELSE rsp
  IN IF ~Accessible(st, slot, n, 1) THEN Fault
     ELSE Done(st, i, WR(st, d, Load(st, slot, n), [st.r EXCEPT !["RSP"] = new]), st.x, <<>>, NoFx, Next8(st, i), {})

(* ------------------------------ dispatch ------------------------------ *)
JccSet == {"ja", "jae", "jb", "jbe", "je", "jg", "jge", "jl", "jle", "jne", "jno", "jnp", "jns", "jo", "jp", "js", "jrcxz", "jecxz"}
StepD(st, i, dev, obsR) ==
  CASE i.m \in {"adc", "add", "sub", "cmp", "and", "xor", "test"} -> Alu2(st, i)
    [] i.m \in {"inc", "dec", "neg", "not"} -> Alu1(st, i)
    [] i.m = "mul" -> Mul1(st, i)
    [] i.m = "imul" -> IF Len(i.ops) = 1 THEN Mul1(st, i) ELSE Imul23(st, i)
    [] i.m \in {"div", "idiv"} -> Div1(st, i, obsR)
    [] i.m \in {"shl", "shr"} -> Shift(st, i)
    [] i.m \in {"mov", "movzx", "movsxd"} -> Mov(st, i)
    [] i.m = "lea" -> Lea(st, i)
    [] i.m \in {"cmovae", "cmove", "cmovne"} -> Cmov(st, i)
    [] i.m \in {"setb", "sete", "setne"} -> Setcc(st, i)
    [] i.m \in {"cwd", "cdq", "cqo", "cdqe"} -> Conv(st, i)
    [] i.m = "cld" -> Done(st, i, st.r, st.x, <<>>, [NoFx EXCEPT !.df = Def(0)], Next8(st, i), {})
    [] i.m \in {"nop", "endbr64"} -> Done(st, i, st.r, st.x, <<>>, NoFx, Next8(st, i), {})
    [] i.m \in {"movups", "xorps", "movd"} -> Simd(st, i)
    [] i.m = "cpuid" -> Done(st, i, st.r, st.x, <<>>, NoFx, Next8(st, i), {"RAX", "RBX", "RCX", "RDX"})
    [] i.m \in JccSet -> Jcc(st, i)
    [] i.m = "jmp" -> Jmp(st, i)
    [] i.m = "call" -> Call(st, i, dev)
    [] i.m = "ret" -> Ret(st, i, dev)
    [] i.m = "push" -> Push(st, i, dev)
    [] i.m = "pop" -> Pop(st, i, dev)
Step(st, i, obsR) == StepD(st, i, FALSE, obsR)

\* the state after a completing step (undefined flags keep their value here; programs in the models do not depend on them)
ApplyFx(f, fx) == [n \in DOMAIN f |-> IF fx[n].s = "def" THEN fx[n].v ELSE f[n]]
Apply(st, x) == [st EXCEPT !.r = x.r, !.x = x.x, !.ov = st.ov \o x.mw, !.f = ApplyFx(st.f, x.fx), !.rip = x.rip]
Known == {"adc", "add", "sub", "cmp", "and", "xor", "test", "inc", "dec", "neg", "not", "mul", "imul", "div", "idiv", "shl", "shr",
          "mov", "movzx", "movsxd", "lea", "cmovae", "cmove", "cmovne", "setb", "sete", "setne", "cwd", "cdq", "cqo", "cdqe", "cld",
          "nop", "endbr64", "movups", "xorps", "movd", "cpuid", "jmp", "call", "ret", "push", "pop"} \cup JccSet
=============================================================================
