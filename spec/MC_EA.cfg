CONSTANTS
  Base = 4
  DBits = 2
  RegLen = 8
INIT Init
NEXT Next
INVARIANT EAOK
CHECK_DEADLOCK FALSE
