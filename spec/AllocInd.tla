------------------------------ MODULE AllocInd ------------------------------
(***************************************************************************)
(* C10 for ALL addresses and lengths: the allocation rules of Memory.tla   *)
(* (creation, "anywhere", resizing - Overlap / Collides are the same       *)
(* formulas) over unbounded integers, with NoOverlap as an INDUCTIVE       *)
(* invariant discharged by Apalache (SMT): Init => IndInv and              *)
(* IndInv /\ Next => IndInv'.  TLC explores Memory.tla on a 12-address     *)
(* line; this removes the bound on addresses and lengths (the number of    *)
(* areas stays bounded by the sequence generator, MaxAreas).               *)
(***************************************************************************)
EXTENDS Integers, Sequences, Apalache

CONSTANT
  \* @type: Int;
  HUGE              \* the model image of 2^64: no area ends above it

VARIABLE
  \* @type: Seq({start: Int, len: Int});
  areas

MaxAreas == 5

Overlap(s1, n1, s2, n2) == n1 > 0 /\ n2 > 0 /\ s1 < s2 + n2 /\ s2 < s1 + n1
Collides(s, n, skip) == \E i \in DOMAIN areas : i # skip /\ Overlap(s, n, areas[i].start, areas[i].len)
NoOverlap == \A i, j \in DOMAIN areas :
                i # j => ~Overlap(areas[i].start, areas[i].len, areas[j].start, areas[j].len)
Bounded == \A i \in DOMAIN areas : areas[i].start >= 0 /\ areas[i].len >= 0 /\ areas[i].start + areas[i].len <= HUGE

ConstInit == HUGE \in Nat /\ HUGE > 0

Init == areas = <<>>

\* explicit creation and "anywhere" (the latter picks its own fresh start): accepted only if the range collides with nothing
Create == /\ Len(areas) < MaxAreas
          /\ \E s \in Nat : \E n \in Nat :
               /\ s + n <= HUGE
               /\ ~Collides(s, n, 0)
               /\ areas' = Append(areas, [start |-> s, len |-> n])
\* resizing the i-th area: accepted only if the new extent collides with no OTHER area
Resize == \E i \in DOMAIN areas : \E n \in Nat :
             /\ areas[i].start + n <= HUGE
             /\ ~Collides(areas[i].start, n, i)
             /\ areas' = [areas EXCEPT ![i] = [start |-> areas[i].start, len |-> n]]
\* a rejected request, a protection change, a read or a write leave the layout as it is
Other == UNCHANGED areas
Next == Create \/ Resize \/ Other

IndInv == Len(areas) <= MaxAreas /\ Bounded /\ NoOverlap
IndInit == areas = Gen(MaxAreas) /\ IndInv
=============================================================================
