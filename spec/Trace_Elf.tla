------------------------------ MODULE Trace_Elf ------------------------------
(* Trace validation for ElfLoad.tla: each event is one generated ELF file loaded by the real Axecutor::from_binary,
   with the areas (sparse content, protection), RIP and resolve_symbol results observed afterwards. *)
EXTENDS ElfLoad, TLC, Json, IOUtils
Rec == ndJsonDeserialize(IOEnv.TRACE)
VARIABLE l
TraceInit == l = 1
Next == /\ l <= Len(Rec)
        /\ LET e == Rec[l] f == Failing(e.file, e.obs) IN IF f = {} THEN TRUE ELSE PrintT(<<"VERDICT", e.sc, 0, "load", f>>)
        /\ l' = l + 1
Finish == l = Len(Rec) + 1 /\ PrintT(<<"TRACE-DONE", Len(Rec)>>) /\ l' = l + 1
TNext == Next \/ Finish
=============================================================================
