CONSTANTS
  MaxSegs = 1
  DumpEdges = FALSE
INIT Init
NEXT Next
INVARIANT Sane
CHECK_DEADLOCK FALSE
