CONSTANTS
  Base = 2
  Neighbour = 7
  MaxBrk = 10
  MaxOps = 5
INIT Init
NEXT Next
INVARIANTS C13_NoOverlap C13_Retains C13_Within C13_Query
CHECK_DEADLOCK FALSE
