----------------------------- MODULE Trace_Brk -----------------------------
(* Trace validation for Brk.tla: guest brk syscalls and guest loads/stores into the heap executed by the real
   Axecutor with the built-in brk handler.  Heap bounds (handler state), the heap area (sparse contents,
   protection) and the other areas are logged after every call and adopted. *)
EXTENDS Brk, TLC, Json, IOUtils

Rec == ndJsonDeserialize(IOEnv.TRACE)
VARIABLES l, base, cur, nz, others
tvars == <<l, base, cur, nz, others>>
TraceInit == l = 1 /\ base = 0 /\ cur = 0 /\ nz = {} /\ others = {}

ObsNz(e) == {<<e.heap.nz[i][1], e.heap.nz[i][2]>> : i \in 1..Len(e.heap.nz)}
ObsOthers(e) == {<<e.others[i][1], e.others[i][2]>> : i \in 1..Len(e.others)}
HeapSane(e) == \* the handler's idea of the heap and the mapped heap area agree; heap is RW and overlaps nothing
  (IF e.heap.len # e.cur - e.base THEN {"heap-area-length-differs-from-break"} ELSE {})
  \cup (IF e.heap.prot # 3 THEN {"heap-not-read-write"} ELSE {})
  \cup (IF Collides(ObsOthers(e), e.base, e.cur) THEN {"heap-overlaps-another-area"} ELSE {})

Bad(e) ==
  CASE e.ev = "brk" ->
         IF e.k = "crash" THEN {"brk-crash"}
         ELSE IF base = 0 THEN
              \* first call: the handler makes up a heap; a query must report the break it then has
              (IF e.k # "ok" THEN {"first-brk-" \o e.k} ELSE HeapSane(e))
              \cup (IF e.k = "ok" /\ e.p = 0 /\ e.rax # e.cur THEN {"brk0-does-not-return-the-break"} ELSE {})
              \cup (IF e.k = "ok" /\ ObsNz(e) # {} THEN {"fresh-heap-not-zero"} ELSE {})
         ELSE IF e.p = 0 THEN
              (IF e.k # "ok" THEN {"brk0-" \o e.k} ELSE {})
              \cup (IF e.k = "ok" /\ ~QueryOK(cur, e.rax) THEN {"brk0-does-not-return-the-break"} ELSE {})
              \cup (IF e.cur # cur \/ e.base # base \/ ObsNz(e) # nz THEN {"brk0-changed-the-heap"} ELSE {})
         ELSE IF e.p >= base THEN
              (IF e.base # base THEN {"heap-base-moved"} ELSE {})
              \cup (IF ~MoveOK(others, base, cur, nz, e.p, e.k, e.rax, e.cur, e.heap.len, ObsNz(e))
                    THEN (IF Collides(others, base, e.p) THEN {"brk-into-another-area"}
                          ELSE IF e.k # "ok" THEN {"brk-move-" \o e.k}
                          ELSE IF e.rax # e.p THEN {"brk-return-value"}
                          ELSE IF e.cur # e.p \/ e.heap.len # e.p - base THEN {"break-not-moved"}
                          ELSE {"heap-bytes-not-retained"})
                    ELSE {})
              \cup (IF e.k = "ok" THEN HeapSane(e) ELSE {})
         ELSE \* 0 < p < base: the property is silent; no crash, no overlap
              (IF e.k = "ok" THEN HeapSane(e) ELSE {})
    [] e.ev = "store" ->
         IF ~InHeap(base, cur, e.addr, Len(e.data)) THEN {}
         ELSE (IF e.k # "ok" THEN {"store-below-break-" \o e.k} ELSE {})
              \cup (IF e.k = "ok" /\ ObsNz(e) # Stored(nz, e.addr - base, e.data) THEN {"store-below-break-wrong-bytes"} ELSE {})
    [] e.ev = "load" ->
         IF ~InHeap(base, cur, e.addr, e.n) THEN {}
         ELSE (IF e.k # "ok" THEN {"load-below-break-" \o e.k} ELSE {})
              \cup (IF e.k = "ok" /\ e.rv # [i \in 1..e.n |-> ByteAt(nz, e.addr - base + i - 1)] THEN {"load-below-break-wrong-bytes"} ELSE {})
              \cup (IF ObsNz(e) # nz THEN {"load-changed-heap"} ELSE {})
    [] OTHER -> IF e.k = "crash" THEN {"crash"} ELSE {}

Next == /\ l <= Len(Rec)
        /\ LET e == Rec[l] b == IF e.hasobs /\ e.ev # "new" THEN Bad(e) ELSE (IF e.k = "crash" THEN {"crash"} ELSE {}) IN
             /\ IF b = {} THEN TRUE ELSE PrintT(<<"VERDICT", e.sc, e.i, e.ev, b>>)
             /\ base' = IF e.ev = "new" THEN 0 ELSE IF e.hasobs THEN e.base ELSE base
             /\ cur' = IF e.ev = "new" THEN 0 ELSE IF e.hasobs THEN e.cur ELSE cur
             /\ nz' = IF e.ev = "new" THEN {} ELSE IF e.hasobs THEN ObsNz(e) ELSE nz
             /\ others' = IF e.hasobs THEN ObsOthers(e) ELSE others
        /\ l' = l + 1
Done == l = Len(Rec) + 1 /\ PrintT(<<"TRACE-DONE", Len(Rec)>>) /\ l' = l + 1 /\ UNCHANGED <<base, cur, nz, others>>
TNext == Next \/ Done
=============================================================================
