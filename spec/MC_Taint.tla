------------------------------- MODULE MC_Taint -------------------------------
(* Noninterference of the general taint rule TwoRun!TaintG on a machine that has what the real instruction set has:
   full writes, partial writes (low digit only), read-modify-write, conditional moves, one memory cell, and
   instructions that are REFUSED depending on an operand (and then write nothing).  Two machines start from arbitrary
   different contents; all programs of up to MaxSteps instructions.  Invariant: every untainted location agrees;
   on every edge: an instruction whose inputs are untainted has the same outcome on both machines. *)
EXTENDS TwoRun, TLC
CONSTANT MaxSteps
Loc == Regs \cup {"mem"}
K == 2                                  \* a value is hi * K + lo; "lo" instructions write the low digit only
GI == [op : {"set"}, r : Regs, v : Vals]
      \cup [op : {"copy", "add", "lo", "store", "load", "failz"}, r : Regs, s : Regs]
      \cup [op : {"cmov"}, r : Regs, s : Regs, c : Regs]
M == Cardinality(Vals)
\* outcome and effect on one machine (st : Loc -> Vals)
Ok(st, i) == ~(i.op = "failz" /\ st[i.s] = 0)
GEff(st, i) ==
  IF ~Ok(st, i) THEN st
  ELSE CASE i.op = "set"   -> [st EXCEPT ![i.r] = i.v]
         [] i.op = "copy"  -> [st EXCEPT ![i.r] = st[i.s]]
         [] i.op = "add"   -> [st EXCEPT ![i.r] = (st[i.r] + st[i.s]) % M]
         [] i.op = "lo"    -> [st EXCEPT ![i.r] = ((st[i.r] \div K) * K + (st[i.s] % K)) % M]
         [] i.op = "store" -> [st EXCEPT !["mem"] = st[i.s]]
         [] i.op = "load"  -> [st EXCEPT ![i.r] = st["mem"]]
         [] i.op = "failz" -> [st EXCEPT ![i.r] = 1]
         [] i.op = "cmov"  -> IF st[i.c] # 0 THEN [st EXCEPT ![i.r] = st[i.s]] ELSE st
GSumm(i) ==
  CASE i.op \in {"set", "copy", "add"} -> Summ(i)
    [] i.op = "lo"    -> [reads |-> {i.s},      wfull |-> {},    wpart |-> {i.r}]
    [] i.op = "store" -> [reads |-> {i.s},      wfull |-> {},    wpart |-> {"mem"}]      \* a store overwrites PART of memory
    [] i.op = "load"  -> [reads |-> {"mem"},    wfull |-> {i.r}, wpart |-> {}]
    [] i.op = "failz" -> [reads |-> {i.s},      wfull |-> {i.r}, wpart |-> {}]
    [] i.op = "cmov"  -> [reads |-> {i.s, i.c}, wfull |-> {},    wpart |-> {i.r}]
VARIABLES a, b, t, n, last
vars == <<a, b, t, n, last>>
Init == a \in [Loc -> Vals] /\ b \in [Loc -> Vals] /\ t = {l \in Loc : a[l] # b[l]} /\ n = 0 /\ last = [none |-> TRUE]
Next == /\ n < MaxSteps
        /\ \E i \in GI :
             /\ a' = GEff(a, i) /\ b' = GEff(b, i)
             /\ t' = TaintG(t, GSumm(i), Ok(a, i) /\ Ok(b, i))
             /\ last' = [i |-> i, clean |-> Clean(t, GSumm(i)), oka |-> Ok(a, i), okb |-> Ok(b, i)]
        /\ n' = n + 1
C20_Noninterference == \A l \in Loc \ t : a[l] = b[l]
C20_SameOutcome == ("clean" \in DOMAIN last /\ last.clean) => last.oka = last.okb
\* the general rule restricted to the small machine is the rule of TwoRun.tla
SmallAgrees == \A i \in Insns : \A tt \in SUBSET Regs : Taint(tt, i) = TaintG(tt, Summ(i), TRUE)
ASSUME SmallAgrees
\* the machine explored here is a MODEL of the assumptions under which TaintSound.tla proves noninterference for any
\* instruction set (so those assumptions are consistent and mean what the summaries are meant to say)
AllStates == [Loc -> Vals]
SemHolds == \A sa, sb \in AllStates, i \in GI :
              LET s == GSumm(i) IN
              (\A l \in s.reads : sa[l] = sb[l]) =>
                 /\ Ok(sa, i) = Ok(sb, i)
                 /\ (Ok(sa, i) => \A l \in s.wfull : GEff(sa, i)[l] = GEff(sb, i)[l])
                 /\ (Ok(sa, i) => \A l \in s.wpart : sa[l] = sb[l] => GEff(sa, i)[l] = GEff(sb, i)[l])
FrameHolds == \A sa \in AllStates, i \in GI, l \in Loc :
                l \notin GSumm(i).wfull \cup GSumm(i).wpart => GEff(sa, i)[l] = sa[l]
RefusedHolds == \A sa \in AllStates, i \in GI : ~Ok(sa, i) => GEff(sa, i) = sa
ASSUME SemHolds /\ FrameHolds /\ RefusedHolds
=============================================================================
