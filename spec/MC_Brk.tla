------------------------------- MODULE MC_Brk -------------------------------
(* Bounded exploration of the brk rules with a reference heap (grow zero-fills, shrink truncates) next to a fixed
   neighbouring area; the invariants are the guest-visible statements of C13. *)
EXTENDS Brk, TLC

CONSTANTS Base, Neighbour, MaxBrk, MaxOps
VARIABLES cur, nz, shadow, last, n
vars == <<cur, nz, shadow, last, n>>
others == {<<Neighbour, 2>>}

Init == cur = Base /\ nz = {} /\ shadow = [o \in {} |-> 0] /\ last = [op |-> "init"] /\ n = 0

Brk(p) ==
  /\ p >= Base
  /\ IF Collides(others, Base, p)
     THEN /\ UNCHANGED <<cur, nz, shadow>> /\ last' = [op |-> "brk", p |-> p, ret |-> cur]
     ELSE /\ cur' = p /\ nz' = Below(nz, p - Base)
          /\ shadow' = [o \in {x \in DOMAIN shadow : x < p - Base} |-> shadow[o]]     \* what the guest may rely on
          /\ last' = [op |-> "brk", p |-> p, ret |-> p]
          /\ Assert(MoveOK(others, Base, cur, nz, p, "ok", p, cur', p - Base, nz'), "MoveOK")
  /\ n' = n + 1
Query == /\ UNCHANGED <<cur, nz, shadow>> /\ last' = [op |-> "brk", p |-> 0, ret |-> cur] /\ n' = n + 1
Store(off, b) == /\ off < cur - Base
                 /\ nz' = Stored(nz, off, <<b>>) /\ shadow' = [o \in DOMAIN shadow \cup {off} |-> IF o = off THEN b ELSE shadow[o]]
                 /\ UNCHANGED cur /\ last' = [op |-> "store", off |-> off] /\ n' = n + 1
Next == /\ n < MaxOps
        /\ (Query \/ (\E p \in Base..MaxBrk : Brk(p)) \/ (\E off \in 0..(MaxBrk - Base), b \in {1, 2} : Store(off, b)))

C13_NoOverlap == ~Collides(others, Base, cur)
C13_Retains == \A o \in DOMAIN shadow : o < cur - Base /\ ByteAt(nz, o) = shadow[o]     \* bytes below the break keep their values
C13_Within == \A x \in nz : x[1] < cur - Base
C13_Query == last.op = "brk" /\ last.p = 0 => last.ret = cur
=============================================================================
