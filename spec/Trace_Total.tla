----------------------------- MODULE Trace_Total -----------------------------
(* Trace validation for totality properties (C19: a step on arbitrary bytes; C16: loading an arbitrary file):
   every recorded outcome must be one the total relation allows ("ok" or "err"), and an allocation request must
   stay related to the size of the input. *)
EXTENDS Encoding, TLC, Json, IOUtils
Rec == ndJsonDeserialize(IOEnv.TRACE)
VARIABLE l
TraceInit == l = 1
Next == /\ l <= Len(Rec)
        /\ LET e == Rec[l]
               b == (IF ~Total(e.out) THEN {"outcome-" \o e.out} ELSE {})
                    \cup (IF e.maxalloc > e.alloclimit THEN {"runaway-allocation"} ELSE {}) IN
             IF b = {} THEN TRUE ELSE PrintT(<<"VERDICT", e.c, 0, e.cls, b>>)
        /\ l' = l + 1
Finish == l = Len(Rec) + 1 /\ PrintT(<<"TRACE-DONE", Len(Rec)>>) /\ l' = l + 1
TNext == Next \/ Finish
=============================================================================
