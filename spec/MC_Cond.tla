------------------------------ MODULE MC_Cond ------------------------------
(* The x86 condition table (Exec!Cond, used by Jcc / SETcc / CMOVcc in X86.tla) checked for all flag states:
   complementary pairs are complements, and composed with the CMP flag semantics of BV.tla (small width) every
   condition means the integer comparison it is named after - for all operand pairs. *)
EXTENDS X86, TLC

VARIABLES a, b, fl
vars == <<a, b, fl>>
Vecs(n) == [1..n -> Digit]
Bits == {0, 1}
Init == /\ a \in Vecs(2) /\ b \in Vecs(2)
        /\ fl \in [cf : Bits, pf : Bits, zf : Bits, sf : Bits, of : Bits, rcxz : Bits, ecxz : Bits]
Next == UNCHANGED vars

Val(x)  == LET RECURSIVE V(_)
               V(i) == IF i > Len(x) THEN 0 ELSE x[i] * Base^(i-1) + V(i+1)
           IN V(1)
SLess(x, y) == IF Msb(x) = Msb(y) THEN Val(x) < Val(y) ELSE Msb(x) = 1       \* signed order

Complements ==
  /\ Cond("a", fl) = ~Cond("be", fl) /\ Cond("ae", fl) = ~Cond("b", fl) /\ Cond("e", fl) = ~Cond("ne", fl)
  /\ Cond("g", fl) = ~Cond("le", fl) /\ Cond("ge", fl) = ~Cond("l", fl) /\ Cond("o", fl) = ~Cond("no", fl)
  /\ Cond("p", fl) = ~Cond("np", fl) /\ Cond("s", fl) = ~Cond("ns", fl)
\* flags produced by CMP a, b
CmpFl == LET s == SubB(a, b, 0) IN
  [cf |-> s.c, pf |-> Parity(s.r), zf |-> Bool(IsZero(s.r)), sf |-> Msb(s.r), of |-> SubOF(a, b, s.r), rcxz |-> 0, ecxz |-> 0]
AfterCmp ==
  /\ Cond("a", CmpFl) = (Val(a) > Val(b))   /\ Cond("ae", CmpFl) = (Val(a) >= Val(b))
  /\ Cond("b", CmpFl) = (Val(a) < Val(b))   /\ Cond("be", CmpFl) = (Val(a) <= Val(b))
  /\ Cond("e", CmpFl) = (a = b)             /\ Cond("ne", CmpFl) = (a # b)
  /\ Cond("l", CmpFl) = SLess(a, b)         /\ Cond("ge", CmpFl) = ~SLess(a, b)
  /\ Cond("g", CmpFl) = SLess(b, a)         /\ Cond("le", CmpFl) = ~SLess(b, a)
  /\ Cond("s", CmpFl) = (Msb(Sub(a, b)) = 1)
=============================================================================
