------------------------------- MODULE Exec -------------------------------
(***************************************************************************)
(* The execution loop of ax (step / execute / instruction limit / finish), *)
(* the hook protocol around each instruction and the control-flow trace.   *)
(* Properties C11, C12 and C18 are stated on this module.                  *)
(*                                                                         *)
(* An instruction is abstracted to what the loop needs (annotation `a`):   *)
(*   kind  "plain" | "jmp" | "jcc" | "call" | "ret" | "syscall" | "fault"  *)
(*         | "nofetch"            (fetch / decode / unsupported -> error)  *)
(*   ip, next (= ip + length), target, cc (condition code for jcc),        *)
(*   mnem (hook class).                                                    *)
(* Flags are a record of bits; the condition table below is the x86 one    *)
(* (also used by C03).                                                     *)
(*                                                                         *)
(* Style: pure operators; MC_Exec wraps them into actions over abstract    *)
(* programs, Trace_Exec applies them to recorded steps of the real code.   *)
(***************************************************************************)
EXTENDS Naturals, Integers, Sequences, FiniteSets

NoLimit == -1

(***************************************************************************)
(* x86 condition codes on CF, PF, ZF, SF, OF                               *)
(***************************************************************************)
Cond(cc, f) ==
  CASE cc = "o"  -> f.of = 1            [] cc = "no" -> f.of = 0
    [] cc = "b"  -> f.cf = 1            [] cc = "ae" -> f.cf = 0
    [] cc = "e"  -> f.zf = 1            [] cc = "ne" -> f.zf = 0
    [] cc = "be" -> f.cf = 1 \/ f.zf = 1 [] cc = "a" -> f.cf = 0 /\ f.zf = 0
    [] cc = "s"  -> f.sf = 1            [] cc = "ns" -> f.sf = 0
    [] cc = "p"  -> f.pf = 1            [] cc = "np" -> f.pf = 0
    [] cc = "l"  -> f.sf # f.of         [] cc = "ge" -> f.sf = f.of
    [] cc = "le" -> f.zf = 1 \/ f.sf # f.of
    [] cc = "g"  -> f.zf = 0 /\ f.sf = f.of
    [] cc = "rcxz" -> f.rcxz = 1        [] cc = "ecxz" -> f.ecxz = 1
CondCodes == {"o","no","b","ae","e","ne","be","a","s","ns","p","np","l","ge","le","g"}

(***************************************************************************)
(* Control-flow log (C18)                                                  *)
(***************************************************************************)
\* a flow event: [ip, target, var] with var in {"call","ret","jump"}
\* the log is the run-length compression of the flow: consecutive repetitions of one jump are collapsed
\* into a count; level = (#calls - #returns) among the entries before it (the pseudo-call of the entry
\* point is entry 1 at level 0).
Delta(var) == IF var = "call" THEN 1 ELSE IF var = "ret" THEN -1 ELSE 0

RECURSIVE Compress(_)
Compress(flow) ==
  IF flow = <<>> THEN <<>>
  ELSE LET init == Compress(SubSeq(flow, 1, Len(flow) - 1))
           x == flow[Len(flow)]
           lvl == IF init = <<>> THEN 0 ELSE init[Len(init)].level + Delta(init[Len(init)].var)
       IN IF init # <<>> /\ x.var = "jump" /\ init[Len(init)].var = "jump"
             /\ init[Len(init)].ip = x.ip /\ init[Len(init)].target = x.target
          THEN [init EXCEPT ![Len(init)].count = @ + 1]
          ELSE Append(init, [ip |-> x.ip, target |-> x.target, var |-> x.var, level |-> lvl, count |-> 1])

\* inverse of Compress (used to resynchronise after an execute() call, whose steps are not observed one by one)
RECURSIVE Repeat(_, _)
Repeat(x, n) == IF n = 0 THEN <<>> ELSE <<x>> \o Repeat(x, n - 1)
RECURSIVE Decompress(_)
Decompress(log) ==
  IF log = <<>> THEN <<>>
  ELSE Decompress(SubSeq(log, 1, Len(log) - 1))
       \o Repeat([ip |-> log[Len(log)].ip, target |-> log[Len(log)].target, var |-> log[Len(log)].var], log[Len(log)].count)
RECURSIVE DepthOf(_)
DepthOf(flow) == IF flow = <<>> THEN 0 - 1 ELSE DepthOf(SubSeq(flow, 1, Len(flow) - 1)) + Delta(flow[Len(flow)].var)

\* incremental form (what an implementation does per event); MC_Exec checks it equals Compress
AddTrace(log, x) ==
  LET lvl == IF log = <<>> THEN 0 ELSE log[Len(log)].level + Delta(log[Len(log)].var)
  IN IF log # <<>> /\ x.var = "jump" /\ log[Len(log)].var = "jump"
        /\ log[Len(log)].ip = x.ip /\ log[Len(log)].target = x.target
     THEN [log EXCEPT ![Len(log)].count = @ + 1]
     ELSE Append(log, [ip |-> x.ip, target |-> x.target, var |-> x.var, level |-> lvl, count |-> 1])

\* the call stack = calls not yet returned from (a return on an empty stack leaves it empty)
RECURSIVE CallStack(_)
CallStack(flow) ==
  IF flow = <<>> THEN <<>>
  ELSE LET init == CallStack(SubSeq(flow, 1, Len(flow) - 1))
           x == flow[Len(flow)]
       IN IF x.var = "call" THEN Append(init, x.target)
          ELSE IF x.var = "ret" THEN (IF init = <<>> THEN <<>> ELSE SubSeq(init, 1, Len(init) - 1))
          ELSE init

(***************************************************************************)
(* One instruction's effect on the loop state (C11)                        *)
(*   s: [rip, count, finished, max, code_end, hasstack, depth]             *)
(*   depth = height of the stack in slots above its initial (empty) level: *)
(*   CALL and PUSH add one, RET and POP remove one - the "stack is empty"  *)
(*   test of a top-level RET is about the stack POINTER, not about the     *)
(*   record of calls.                                                      *)
(***************************************************************************)
Gate(s) == IF s.finished THEN "finished"
           ELSE IF s.max # NoLimit /\ s.count >= s.max THEN "limit"
           ELSE "go"

\* Does the instruction transfer control?  (flow event or <<>>)
Taken(a, f) == \/ a.kind \in {"jmp", "call"}
               \/ a.kind = "jcc" /\ Cond(a.cc, f)
TopLevelRet(s, a) == a.kind = "ret" /\ s.hasstack /\ s.depth = 0

FlowEvent(s, a, f) ==
  IF a.kind = "ret" /\ ~TopLevelRet(s, a) THEN <<[ip |-> a.ip, target |-> a.target, var |-> "ret"]>>
  ELSE IF a.kind = "call" THEN <<[ip |-> a.ip, target |-> a.target, var |-> "call"]>>
  ELSE IF a.kind \in {"jmp", "jcc"} /\ Taken(a, f) THEN <<[ip |-> a.ip, target |-> a.target, var |-> "jump"]>>
  ELSE <<>>

\* state after the effect of a completing instruction (hooks aside)
Effect(s, a, f) ==
  LET nrip == IF TopLevelRet(s, a) THEN a.next
              ELSE IF a.kind = "ret" THEN a.target
              ELSE IF Taken(a, f) THEN a.target ELSE a.next
      fin  == TopLevelRet(s, a) \/ nrip = s.code_end
  IN [s EXCEPT !.rip = nrip, !.count = s.count + 1, !.finished = fin,
               !.depth = IF a.kind \in {"call", "push"} THEN s.depth + 1
                         ELSE IF a.kind = "pop" \/ (a.kind = "ret" /\ ~TopLevelRet(s, a)) THEN s.depth - 1 ELSE s.depth]

Completes(a) == a.kind \in {"plain", "jmp", "jcc", "call", "ret", "syscall", "push", "pop"}

(***************************************************************************)
(* Hook protocol (C12)                                                     *)
(*   a hook: [hid, when ("before"|"after"), mnem, ret ("unhandled"|        *)
(*            "handled"|"error"), stop (BOOLEAN)]                          *)
(*   an invocation record (from the log): [hid, when, rip]                 *)
(***************************************************************************)
HooksFor(hooks, mnem, when) == SelectSeq(hooks, LAMBDA h : h.mnem = mnem /\ h.when = when)
\* the chain of a phase ends at a hook that reports the event handled, fails, or stops execution.  If execution
\* was already finished when the phase started (after hooks of the last instruction) a stop() is a no-op and
\* may or may not end the chain.
MustEnd(h, fin) == h.ret \in {"handled", "error"} \/ (h.stop /\ ~fin)
MayEnd(h, fin)  == MustEnd(h, fin) \/ h.stop
Ends(h) == MustEnd(h, FALSE)

\* is L (sequence of hook ids, in invocation order) a legal run of the phase whose registered hooks are H?
\* each hook at most once, only hooks of H, every one unless an earlier one ended the chain; the order among
\* the hooks of one phase is not prescribed.
ById(H, id) == CHOOSE h \in {H[i] : i \in 1..Len(H)} : h.hid = id
PhaseOKF(L, H, fin) ==
  LET ids == {H[i].hid : i \in 1..Len(H)} IN
  /\ \A i \in 1..Len(L) : L[i] \in ids
  /\ \A i, j \in 1..Len(L) : i # j => L[i] # L[j]
  /\ \A i \in 1..(Len(L) - 1) : ~MustEnd(ById(H, L[i]), fin)
  /\ (L = <<>> \/ ~MayEnd(ById(H, L[Len(L)]), fin)) => Len(L) = Len(H)
PhaseOK(L, H) == PhaseOKF(L, H, FALSE)
PhaseResult(L, H) ==          \* "error" | "stop" | "go"
  IF L # <<>> /\ ById(H, L[Len(L)]).ret = "error" THEN "error"
  ELSE IF \E i \in 1..Len(L) : ById(H, L[i]).stop THEN "stop"
  ELSE "go"
=============================================================================
