------------------------------ MODULE MC_Table8 ------------------------------
(* spec -> impl for the 8-bit operand space: TLC evaluates the step relation of X86.tla for EVERY 8-bit operand pair
   (and carry-in) of each two-operand class, every operand of each one-operand class and every operand x count of the
   shifts, and prints result tables; the harness then checks every 8-bit form and shape of the implementation
   against the tables (exhaustive over values).  One TLC state per (class, first operand): the row of 256 second
   operands x 2 carry-ins is printed by the invariant. *)
EXTENDS X86, TLC, Json

VARIABLES cls, a, live
Classes2 == {"add", "adc", "sub", "cmp", "and", "xor", "test"}
Classes1 == {"inc", "dec", "neg", "not"}
ClassesS == {"shl", "shr"}
ClassesM == {"mul", "imul"}
\* the rows are spread over Init (class, high nibble) and Next (low nibble) so that TLC's workers share the evaluation
Init == cls \in Classes2 \cup Classes1 \cup ClassesS \cup ClassesM /\ a \in {16 * k : k \in 0..15} /\ live = FALSE
Next == ~live /\ live' = TRUE /\ cls' = cls /\ a' \in a..(a + 15)

TR8(name) == [k |-> "reg", r |-> name, w |-> 8, base |-> "", index |-> "", scale |-> 1, disp |-> Z8, seg |-> "", asz |-> 64, v |-> Z8]
TImm(v) == [k |-> "imm", r |-> "", w |-> 0, base |-> "", index |-> "", scale |-> 1, disp |-> Z8, seg |-> "", asz |-> 64, v |-> [i \in 1..8 |-> IF i = 1 THEN v ELSE 0]]
TV8(x) == [i \in 1..8 |-> IF i = 1 THEN x ELSE 0]
TSt(x, y, c) == [r |-> [RAX |-> TV8(x), RBX |-> TV8(y), RCX |-> Z8, RDX |-> Z8, RSI |-> Z8, RDI |-> Z8, RSP |-> Z8, RBP |-> Z8,
                       R8 |-> Z8, R9 |-> Z8, R10 |-> Z8, R11 |-> Z8, R12 |-> Z8, R13 |-> Z8, R14 |-> Z8, R15 |-> Z8],
                x |-> <<>>, f |-> [cf |-> c, pf |-> 0, af |-> 0, zf |-> 0, sf |-> 0, df |-> 0, of |-> 0],
                fs |-> Z8, gs |-> Z8, rip |-> OfInt(1050624), ov |-> <<>>]
TI(m, ops) == [m |-> m, code |-> "", len |-> 2, ops |-> ops]
\* one table entry: result (AL, or AX for multiplications) and per-flag status/value for cf pf zf sf of (af omitted)
Enc(fx) == [n \in {"cf", "pf", "zf", "sf", "of"} |-> IF fx[n].s = "def" THEN fx[n].v ELSE IF fx[n].s = "undef" THEN 2 ELSE 3]
Entry(x) == [r |-> x.r["RAX"][1] + 256 * x.r["RAX"][2], f |-> Enc(x.fx)]
Row == CASE cls \in Classes2 -> [b \in 0..255 |-> [c \in 0..1 |-> Entry(StepD(TSt(a, b, c), TI(cls, <<TR8("AL"), TR8("BL")>>), FALSE, <<>>))]]
         [] cls \in Classes1 -> [c \in 0..1 |-> Entry(StepD(TSt(a, 0, c), TI(cls, <<TR8("AL")>>), FALSE, <<>>))]
         [] cls \in ClassesS -> [n \in 0..255 |-> Entry(StepD(TSt(a, 0, 0), TI(cls, <<TR8("AL"), TImm(n)>>), FALSE, <<>>))]
         [] cls \in ClassesM -> [b \in 0..255 |-> Entry(StepD(TSt(a, b, 0), TI(cls, <<TR8("BL")>>), FALSE, <<>>))]
Dump == ~live \/ PrintT(<<"EDGE", ToJson([cls |-> cls, a |-> a, row |-> Row])>>)
=============================================================================
