------------------------------ MODULE MC_BV ------------------------------
(* Exhaustive ground-truth check of BV.tla against Nat arithmetic (small Base). *)
EXTENDS BV, TLC, FiniteSets

CONSTANT MaxLen

VARIABLES a, b, h, c
vars == <<a, b, h, c>>

Val(x)  == LET RECURSIVE V(_)
               V(i) == IF i > Len(x) THEN 0 ELSE x[i] * Base^(i-1) + V(i+1)
           IN V(1)
M(n)    == Base^n                                  \* modulus of an n-digit value
SVal(x) == IF Msb(x) = 1 THEN Val(x) - M(Len(x)) ELSE Val(x)    \* may be "negative": use only in comparisons below
\* signed value as (sign, magnitude) to stay inside Nat
Mag(x)  == IF Msb(x) = 1 THEN M(Len(x)) - Val(x) ELSE Val(x)

Vecs(n) == [1..n -> Digit]

\* the operand space is spread over Init (a) and Next (b, h, c) so that TLC's workers share the evaluation
Init == \E n \in 1..MaxLen : a \in Vecs(n) /\ b = Zeros(n) /\ h = Zeros(n) /\ c = 2
Next == c = 2 /\ a' = a /\ b' \in Vecs(Len(a)) /\ h' \in Vecs(Len(a)) /\ c' \in {0, 1}

n == Len(a)
Live == c # 2            \* seed states carry no operands

AddOK  == LET x == AddC(a, b, c) IN
            /\ Val(x.r) = (Val(a) + Val(b) + c) % M(n)
            /\ x.c = (IF Val(a) + Val(b) + c >= M(n) THEN 1 ELSE 0)
            \* signed overflow: true sum of signed values not representable
            /\ AddOF(a, b, x.r) = (LET sa == Msb(a) sb == Msb(b) IN
                 IF sa = 0 /\ sb = 0 THEN (IF Val(a) + Val(b) + c >= M(n) \div 2 THEN 1 ELSE 0)
                 ELSE IF sa = 1 /\ sb = 1 THEN (IF Mag(a) + Mag(b) > M(n) \div 2 + c THEN 1 ELSE 0)
                 ELSE 0)
SubOK  == LET x == SubB(a, b, c) IN
            /\ Val(x.r) = (Val(a) + 2 * M(n) - Val(b) - c) % M(n)
            /\ x.c = (IF Val(a) < Val(b) + c THEN 1 ELSE 0)
            /\ SubOF(a, b, x.r) = (LET sa == Msb(a) sb == Msb(b) IN
                 \* a - b - c with a >= 0 > b : overflow iff a + |b| - c >= 2^(w-1)
                 IF sa = 0 /\ sb = 1 THEN (IF Val(a) + Mag(b) >= M(n) \div 2 + c THEN 1 ELSE 0)
                 \* a < 0 <= b : overflow iff |a| + b + c > 2^(w-1)
                 ELSE IF sa = 1 /\ sb = 0 THEN (IF Mag(a) + Val(b) + c > M(n) \div 2 THEN 1 ELSE 0)
                 ELSE 0)
NegOK  == Val(Neg(a)) = (M(n) - Val(a)) % M(n)
NotOK  == Val(BNot(a)) = M(n) - 1 - Val(a)
CmpOK  == /\ ULt(a, b) = (Val(a) < Val(b))
          /\ ULe(a, b) = (Val(a) <= Val(b))
          /\ SLt(a, b) = (IF Msb(a) = Msb(b) THEN Val(a) < Val(b) ELSE Msb(a) = 1)
ExtOK  == /\ Val(ZExt(a, n + 1)) = Val(a)
          /\ Val(SExt(a, n + 1)) = (IF Msb(a) = 1 THEN Val(a) + M(n + 1) - M(n) ELSE Val(a))
          /\ Val(Trunc(Cat(a, h), n)) = Val(a)
          /\ Val(Cat(a, h)) = Val(a) + M(n) * Val(h)
          /\ Val(Upper(Cat(a, h), n)) = Val(h)
LogicOK == /\ \A j \in 0..(Width(a) - 1) :
                /\ Bit(BAnd(a, b), j) = (IF Bit(a, j) = 1 /\ Bit(b, j) = 1 THEN 1 ELSE 0)
                /\ Bit(BOr(a, b), j)  = (IF Bit(a, j) = 1 \/ Bit(b, j) = 1 THEN 1 ELSE 0)
                /\ Bit(BXor(a, b), j) = (IF Bit(a, j) # Bit(b, j) THEN 1 ELSE 0)
                /\ Bit(a, j) = (Val(a) \div 2^j) % 2
           /\ FromBits([j \in 0..(Width(a) - 1) |-> Bit(a, j)], n) = a
ShiftOK == \A s \in 0..(Width(a) + 1) :
             /\ Val(ShiftL(a, s)) = (Val(a) * 2^s) % M(n)
             /\ Val(ShiftR(a, s)) = Val(a) \div 2^s
MulOK  == /\ Val(UMul(a, b)) = Val(a) * Val(b)
          /\ Len(UMul(a, b)) = 2 * n
          \* signed product: compare magnitudes and sign
          /\ LET p == SMul(a, b) IN
               IF Mag(a) * Mag(b) = 0 THEN IsZero(p)
               ELSE IF Msb(a) = Msb(b) THEN Msb(p) = 0 /\ Val(p) = Mag(a) * Mag(b)
               ELSE Msb(p) = 1 /\ Mag(p) = Mag(a) * Mag(b)
DivOK  == IsZero(b) \/ LET num == Cat(a, h) x == UDivMod(num, b) IN
            /\ Len(x.q) = 2 * n /\ Len(x.r) = n
            /\ Val(x.q) = Val(num) \div Val(b)
            /\ Val(x.r) = Val(num) % Val(b)
\* relational division: fits / relation agree with the computed quotient (unsigned) and with magnitudes (signed)
DivRelOK == IsZero(b) \/ LET num == Cat(a, h) x == UDivMod(num, b) IN
            /\ UDivFits(num, b) = (Val(num) \div Val(b) < M(n))
            /\ UDivFits(num, b) => UDivRel(num, b, Trunc(x.q, n), x.r)
            /\ \A q \in Vecs(n) : (UDivFits(num, b) /\ UDivRel(num, b, q, x.r)) => q = Trunc(x.q, n)
SDivRelOK == IsZero(b) \/ LET num == Cat(a, h)
                              qm == Mag(num) \div Mag(b)  rm == Mag(num) % Mag(b)      \* truncating division on magnitudes
                              neg == Msb(num) # Msb(b)
                              fits == IF neg THEN qm <= M(n) \div 2 ELSE qm < M(n) \div 2 IN
            /\ SDivFits(num, b) = fits
            /\ fits => \A q \in Vecs(n), r \in Vecs(n) :
                  SDivRel(num, b, q, r) <=> (/\ Mag(q) = qm /\ (qm = 0 \/ (Msb(q) = 1) = neg)
                                             /\ Mag(r) = rm /\ (rm = 0 \/ Msb(r) = Msb(num)))
ParityOK == Parity(a) = (LET RECURSIVE P(_)
                             P(j) == IF j = ParityBits(a) THEN 0 ELSE ((Val(a) \div 2^j) % 2) + P(j+1)
                         IN IF P(0) % 2 = 0 THEN 1 ELSE 0)

G_AddOK == Live => AddOK
G_SubOK == Live => SubOK
G_NegOK == Live => NegOK
G_NotOK == Live => NotOK
G_CmpOK == Live => CmpOK
G_ExtOK == Live => ExtOK
G_LogicOK == Live => LogicOK
G_ShiftOK == Live => ShiftOK
G_MulOK == Live => MulOK
\* the carry-in c does not occur in the division checks: evaluate them for one value of c only (halves the dominant cost)
G_DivOK == (Live /\ c = 0) => DivOK
G_DivRelOK == (Live /\ c = 0) => DivRelOK
G_SDivRelOK == (Live /\ c = 0) => SDivRelOK
G_ParityOK == Live => ParityOK
Inv == AddOK /\ SubOK /\ NegOK /\ NotOK /\ CmpOK /\ ExtOK /\ LogicOK /\ ShiftOK /\ MulOK /\ DivOK /\ ParityOK
=============================================================================
