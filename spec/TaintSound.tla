----------------------------- MODULE TaintSound -----------------------------
(***************************************************************************)
(* Noninterference of the general taint rule TwoRun!TaintG, proved (TLAPS) *)
(* for ANY instruction set whose instructions respect their data-flow      *)
(* summaries - not only for the small machines TLC explores (MC_TwoRun,    *)
(* MC_Taint).                                                              *)
(*                                                                         *)
(* Two machine states sa, sb : Loc -> Val.  An instruction i has a summary *)
(* reads(i), wfull(i), wpart(i) \subseteq Loc, an outcome Ok(s, i) and an  *)
(* effect Eff(s, i) (a refused instruction changes nothing).  The summary  *)
(* is RESPECTED (assumption Sem): outcome and completely overwritten       *)
(* locations depend on the read locations only; a partly / conditionally   *)
(* written location depends on the read locations and on its own old       *)
(* value; every other location keeps its value.                            *)
(***************************************************************************)
EXTENDS TLAPS

CONSTANTS Loc, Val, Insn,
          Reads(_), WFull(_), WPart(_),     \* summaries
          Ok(_, _), Eff(_, _)               \* semantics

State == [Loc -> Val]

Clean(t, i) == Reads(i) \cap t = {}
\* TwoRun!TaintG with s = [reads |-> Reads(i), wfull |-> WFull(i), wpart |-> WPart(i)]
TaintG(t, i, both) ==
  IF Clean(t, i) THEN (IF both THEN t \ WFull(i) ELSE t)
  ELSE t \cup WFull(i) \cup WPart(i)

AgreeOn(sa, sb, S) == \A l \in S : sa[l] = sb[l]

ASSUME SummaryTypes == \A i \in Insn : Reads(i) \subseteq Loc /\ WFull(i) \subseteq Loc /\ WPart(i) \subseteq Loc
ASSUME EffType == \A s \in State, i \in Insn : Eff(s, i) \in State
ASSUME Refused == \A s \in State, i \in Insn : ~Ok(s, i) => Eff(s, i) = s
ASSUME Frame == \A s \in State, i \in Insn, l \in Loc : l \notin WFull(i) \cup WPart(i) => Eff(s, i)[l] = s[l]
ASSUME Sem ==
  \A sa, sb \in State, i \in Insn :
     AgreeOn(sa, sb, Reads(i)) =>
        /\ Ok(sa, i) = Ok(sb, i)
        /\ (Ok(sa, i) => \A l \in WFull(i) : Eff(sa, i)[l] = Eff(sb, i)[l])
        /\ (Ok(sa, i) => \A l \in WPart(i) : sa[l] = sb[l] => Eff(sa, i)[l] = Eff(sb, i)[l])

\* the invariant: every untainted location agrees
Inv(sa, sb, t) == AgreeOn(sa, sb, Loc \ t)

THEOREM SameOutcome ==
  ASSUME NEW sa \in State, NEW sb \in State, NEW t \in SUBSET Loc, NEW i \in Insn,
         Inv(sa, sb, t), Clean(t, i)
  PROVE  Ok(sa, i) = Ok(sb, i)
<1>1. AgreeOn(sa, sb, Reads(i))
  BY SummaryTypes DEF Inv, AgreeOn, Clean
<1> QED BY <1>1, Sem

THEOREM Noninterference ==
  ASSUME NEW sa \in State, NEW sb \in State, NEW t \in SUBSET Loc, NEW i \in Insn,
         Inv(sa, sb, t)
  PROVE  Inv(Eff(sa, i), Eff(sb, i), TaintG(t, i, Ok(sa, i) /\ Ok(sb, i)))
<1> DEFINE both == Ok(sa, i) /\ Ok(sb, i)
<1> DEFINE t2 == TaintG(t, i, both)
<1> SUFFICES ASSUME NEW l \in Loc \ t2 PROVE Eff(sa, i)[l] = Eff(sb, i)[l]
  BY DEF Inv, AgreeOn
<1>1. CASE Clean(t, i)
  <2>1. AgreeOn(sa, sb, Reads(i))
    BY <1>1, SummaryTypes DEF Inv, AgreeOn, Clean
  <2>2. Ok(sa, i) = Ok(sb, i)
    BY <2>1, Sem
  <2>3. CASE both
    <3>1. t2 = t \ WFull(i)
      BY <1>1, <2>3 DEF TaintG
    <3>2. CASE l \in WFull(i)
      BY <3>2, <2>1, <2>3, Sem
    <3>3. CASE l \notin WFull(i)
      <4>1. l \notin t
        BY <3>1, <3>3
      <4>2. sa[l] = sb[l]
        BY <4>1 DEF Inv, AgreeOn
      <4>3. CASE l \in WPart(i)
        BY <4>3, <4>2, <2>1, <2>3, Sem
      <4>4. CASE l \notin WPart(i)
        BY <4>4, <3>3, <4>2, Frame
      <4> QED BY <4>3, <4>4
    <3> QED BY <3>2, <3>3
  <2>4. CASE ~both
    <3>1. ~Ok(sa, i) /\ ~Ok(sb, i)
      BY <2>4, <2>2
    <3>2. Eff(sa, i) = sa /\ Eff(sb, i) = sb
      BY <3>1, Refused
    <3>3. t2 = t
      BY <1>1, <2>4 DEF TaintG
    <3> QED BY <3>2, <3>3 DEF Inv, AgreeOn
  <2> QED BY <2>3, <2>4
<1>2. CASE ~Clean(t, i)
  <2>1. t2 = t \cup WFull(i) \cup WPart(i)
    BY <1>2 DEF TaintG
  <2>2. l \notin t /\ l \notin WFull(i) \cup WPart(i)
    BY <2>1
  <2>3. sa[l] = sb[l]
    BY <2>2 DEF Inv, AgreeOn
  <2> QED BY <2>2, <2>3, Frame
<1> QED BY <1>1, <1>2
=============================================================================
