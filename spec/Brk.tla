-------------------------------- MODULE Brk --------------------------------
(***************************************************************************)
(* The built-in brk handler of ax as the guest sees it (property C13):     *)
(* a conventional program break over a heap [base, cur) that is readable   *)
(* and writable, retains its bytes while they stay below the break, and    *)
(* never overlaps another area.                                            *)
(*                                                                         *)
(* Heap contents are kept sparsely: nz = set of <<offset, byte>> with      *)
(* byte # 0 (everything else reads as zero).                               *)
(***************************************************************************)
EXTENDS Naturals, Sequences, FiniteSets

Overlap(s1, n1, s2, n2) == n1 > 0 /\ n2 > 0 /\ s1 < s2 + n2 /\ s2 < s1 + n1
\* others: set of <<start, len>> of the areas that are not the heap
Collides(others, base, p) == \E o \in others : Overlap(base, p - base, o[1], o[2])
Below(nz, n) == {x \in nz : x[1] < n}

\* brk(0): query
QueryOK(cur, rax) == rax = cur

\* brk(p), p >= base: allowed outcomes, given the heap before (base, cur, nz) and after (cur2, len2, nz2), the result
\* kind k and the returned value rax
MoveOK(others, base, cur, nz, p, k, rax, cur2, len2, nz2) ==
  IF Collides(others, base, p)
  THEN \* the heap must not grow into another area: the call fails or reports the unchanged break
       /\ (k = "err" \/ (k = "ok" /\ rax = cur))
       /\ cur2 = cur /\ nz2 = nz
  ELSE /\ k = "ok" /\ rax = p
       /\ cur2 = p /\ len2 = p - base
       \* bytes that stay below the break keep what was written; regrown bytes are unspecified
       /\ Below(nz2, IF p < cur THEN p - base ELSE cur - base) = Below(nz, IF p < cur THEN p - base ELSE cur - base)
       /\ \A x \in nz2 : x[1] < p - base

ByteAt(nz, off) == IF \E x \in nz : x[1] = off THEN (CHOOSE x \in nz : x[1] = off)[2] ELSE 0
Stored(nz, off, bytes) == {x \in nz : x[1] < off \/ x[1] >= off + Len(bytes)}
                          \cup {<<off + i - 1, bytes[i]>> : i \in {j \in 1..Len(bytes) : bytes[j] # 0}}
InHeap(base, cur, a, n) == base <= a /\ a + n <= cur
=============================================================================
