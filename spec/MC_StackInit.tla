---------------------------- MODULE MC_StackInit ----------------------------
(* Configuration enumeration for StackInit.tla: argc, envc in 0..MaxN, string lengths from {0, 1, long}, requested
   sizes from a boundary set, optional pre-existing area.  A reference layout (strings packed above the image, frame
   at the top of a fresh stack area) is checked to satisfy Post for every configuration - the post-condition is
   satisfiable and consistent - and every configuration is printed for replay against the implementation. *)
EXTENDS StackInit, TLC, Json

CONSTANTS MaxN, DumpEdges
VARIABLES cfg
Lens == {0, 1, 40}
Sizes == {0, 8, 16, 64, 4096}
Str(n) == [i \in 1..n |-> 65]
Init == \E a \in 0..MaxN, e \in 0..MaxN : \E al \in [1..a -> Lens], el \in [1..e -> Lens], L \in Sizes, img \in {0, 16, 4096} :
          cfg = [argv |-> [i \in 1..a |-> Str(al[i])], envp |-> [i \in 1..e |-> Str(el[i])], L |-> L, img |-> img]
Next == UNCHANGED cfg

\* reference layout: image at 4096 (if any), strings packed from 16384 on, stack area at 65536
RECURSIVE Pack(_, _, _)
Pack(ss, i, at) == IF i > Len(ss) THEN <<>> ELSE <<at>> \o Pack(ss, i + 1, at + Len(ss[i]) + 1)
Ref == LET ss == Strings(cfg.argv, cfg.envp) n == Len(ss) + 3
           ptr == Pack(ss, 1, 16384)
           before == IF cfg.img = 0 THEN <<>> ELSE << <<4096, cfg.img, 5>> >>
           slen == cfg.L + 8 * n + 32
           rsp == ((65536 + cfg.L + 15) \div 16) * 16
           popped == <<Len(cfg.argv)>> \o [i \in 1..Len(cfg.argv) |-> ptr[i]] \o <<0>>
                     \o [i \in 1..Len(cfg.envp) |-> ptr[Len(cfg.argv) + i]] \o <<0>>
       IN [rsp |-> rsp, popped |-> popped, strs |-> [i \in 1..Len(ss) |-> ss[i] \o <<0>>], frame |-> <<rsp + 8, 8 * n>>,
           stack |-> <<65536, slen>>, before |-> before,
           areas |-> before \o [i \in 1..Len(ss) |-> <<ptr[i], Len(ss[i]) + 1, 3>>] \o << <<65536, slen, 3>> >>]
RefSatisfiesPost == Post(Ref, cfg.argv, cfg.envp, cfg.L) /\ Failing(Ref, cfg.argv, cfg.envp, cfg.L) = {}
\* ... and the post-condition is not vacuous: dropping a terminator or misaligning RSP is rejected
Mutants == /\ ~Post([Ref EXCEPT !.rsp = @ + 8], cfg.argv, cfg.envp, cfg.L)
           /\ ~Post([Ref EXCEPT !.popped = [@ EXCEPT ![Len(@)] = 1]], cfg.argv, cfg.envp, cfg.L)
           /\ (Len(cfg.argv) > 0 => ~Post([Ref EXCEPT !.popped = [@ EXCEPT ![1] = Len(cfg.argv) + 1]], cfg.argv, cfg.envp, cfg.L))
Dump == IF DumpEdges THEN PrintT(<<"EDGE", ToJson([argv |-> [i \in 1..Len(cfg.argv) |-> Len(cfg.argv[i])],
                                                    envp |-> [i \in 1..Len(cfg.envp) |-> Len(cfg.envp[i])], L |-> cfg.L, img |-> cfg.img])>>) ELSE TRUE
Inv == RefSatisfiesPost /\ Mutants /\ Dump
=============================================================================
