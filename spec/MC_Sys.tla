------------------------------- MODULE MC_Sys -------------------------------
(* Every arch_prctl call over a small value space: where exactly ax's documented behaviour deviates from the ABI; and the
   registration / dispatch laws (idempotent, refused inside hooks, at most one claimant per number). *)
EXTENDS Sys, TLC
Vals == {0, 7, 158}
Codes == {4096, 4097, 4098, 4099, 4100, 4101}
VARIABLES st, reg, last
Init == st \in [rax : {158}, fs : Vals, gs : Vals] /\ reg = {} /\ last = [none |-> TRUE]
Call == \E code \in Codes, addr \in Vals, rd \in BOOLEAN :
          LET o == Ax(st, code, addr, rd) IN
          /\ st' = [rax |-> 158, fs |-> o.fs, gs |-> o.gs]
          /\ last' = [code |-> code, addr |-> addr, rd |-> rd, dev |-> Deviation(st, code, addr, rd), o |-> o]
          /\ UNCHANGED reg
Reg == \E l \in SUBSET Builtins, running \in BOOLEAN :
          /\ reg' = Register(reg, l, running).reg /\ UNCHANGED st
          /\ last' = [reglist |-> l, running |-> running, k |-> Register(reg, l, running).k]
Next == Call \/ Reg
\* where the ABI and ax's documented behaviour agree: unknown codes behind a readable pointer; SET_FS up to the return value
UnknownAgree == ("dev" \in DOMAIN last /\ last.rd /\ last.code \notin {4097, 4098, 4099, 4100}) => ~last.dev
SetFsBases == ("dev" \in DOMAIN last /\ last.rd /\ last.code = 4098) => (last.o.fs = last.addr /\ st.fs = last.addr)
OneClaimant == \A n \in {0, 1, 12, 22, 60, 158, 99} : Cardinality(Claims(reg, n)) <= 1
RegLaws == ("running" \in DOMAIN last) => (IF last.running THEN last.k = "err" ELSE last.k = "ok" /\ last.reglist \subseteq reg)
=============================================================================
