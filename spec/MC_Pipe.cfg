CONSTANTS
  MaxPipes = 2
  MaxOps = 5
  DumpEdges = FALSE
INIT Init
NEXT Next
VIEW View
INVARIANTS C14_Fifo C14_Conservation C14_Ends
ACTION_CONSTRAINT EdgeCheck
CHECK_DEADLOCK FALSE
