----------------------------- MODULE Trace_Sys -----------------------------
(* Trace validation of the built-in exit / arch_prctl handlers and of registration (Sys.tla).  Each "sys" event is one
   `syscall` instruction executed with explicit RAX / RDI / RSI; the log carries the state before (rax, fs, gs, finished),
   whether the pointer was readable (decided by the scenario's layout), and the state after.  Verdict components:
   regression-*  : the observation is neither the ABI's outcome nor ax's documented one
   abi-deviation : it is ax's documented outcome where that differs from the ABI (counted, reported as an observation) *)
EXTENDS Sys, TLC, Json, IOUtils, Sequences
Rec == ndJsonDeserialize(IOEnv.TRACE)
VARIABLES l, reg
TraceInit == l = 1 /\ reg = {}
ToSet(sq) == {sq[k] : k \in 1..Len(sq)}
Same3(o, x) == o.rax = x.rax /\ o.fs = x.fs /\ o.gs = x.gs
Bad(e) ==
  CASE e.ev = "register" ->
         LET r == Register(reg, ToSet(e.list), FALSE) IN IF e.k # r.k THEN {"regression-registration-" \o e.k} ELSE {}
    [] e.ev = "sys" /\ Claims(reg, e.pre.rax) = {} ->
         \* nobody claims the number: without ANY handler the step fails (a syscall nobody hooks); with handlers registered for
         \* other numbers they all pass and the instruction completes; either way nothing changes
         (IF reg = {} /\ e.k # "err" THEN {"regression-unhooked-syscall-completed"} ELSE {})
         \cup (IF reg # {} /\ e.k # "ok" THEN {"regression-unclaimed-syscall-" \o e.k} ELSE {})
         \cup (IF ~Same3(e.post, e.pre) \/ e.post.finished # e.pre.finished THEN {"regression-unclaimed-syscall-changed-state"} ELSE {})
    [] e.ev = "sys" /\ Claims(reg, e.pre.rax) = {"Exit"} ->
         (IF e.k # "ok" \/ e.v THEN {"regression-exit-did-not-end-run-cleanly"} ELSE {})
         \cup (IF ~e.post.finished THEN {"regression-exit-not-finished"} ELSE {})
         \cup (IF ~Same3(e.post, e.pre) THEN {"regression-exit-changed-registers"} ELSE {})
    [] e.ev = "sys" /\ Claims(reg, e.pre.rax) = {"ArchPrctl"} ->
         LET a == Ax(e.pre, e.code, e.addr, e.readable)
             k == Linux(e.pre, e.code, e.addr, e.readable) IN
         (IF e.k # "ok" THEN {"regression-arch-prctl-" \o e.k}
          ELSE IF Same3(e.post, k) /\ k.word = "same" THEN {}
          ELSE IF Same3(e.post, a) THEN {"abi-deviation"}
          ELSE {"regression-arch-prctl-outcome"})
         \cup (IF e.post.finished THEN {"regression-arch-prctl-finished"} ELSE {})
    [] OTHER -> IF e.k = "crash" THEN {"crash"} ELSE {}
Next == /\ l <= Len(Rec)
        /\ LET e == Rec[l] b == Bad(e) IN
             /\ IF b = {} THEN TRUE ELSE PrintT(<<"VERDICT", e.sc, e.i, e.ev, b>>)
             /\ reg' = IF e.ev = "new" THEN {} ELSE IF e.ev = "register" /\ e.k = "ok" THEN reg \cup ToSet(e.list) ELSE reg
        /\ l' = l + 1
Done == l = Len(Rec) + 1 /\ PrintT(<<"TRACE-DONE", Len(Rec)>>) /\ l' = l + 1 /\ UNCHANGED reg
TNext == Next \/ Done
=============================================================================
