--------------------------- MODULE Trace_StackInit ---------------------------
(* Trace validation for StackInit.tla: each event is one init_stack_program_start call on the real Axecutor followed
   by guest POP instructions and reads of the pointed-to strings (gathered into one outcome record by the binding). *)
EXTENDS StackInit, TLC, Json, IOUtils
Rec == ndJsonDeserialize(IOEnv.TRACE)
VARIABLE l
TraceInit == l = 1
Next == /\ l <= Len(Rec)
        /\ LET e == Rec[l] IN
             IF e.k # "ok" THEN PrintT(<<"VERDICT", e.sc, 0, "init", {"init-" \o e.k}>>)
             ELSE LET f == Failing(e.o, e.argv, e.envp, e.L) IN
                  IF f = {} THEN Assert(Post(e.o, e.argv, e.envp, e.L), "Post/Failing disagree") ELSE PrintT(<<"VERDICT", e.sc, 0, "init", f>>)
        /\ l' = l + 1
Finish == l = Len(Rec) + 1 /\ PrintT(<<"TRACE-DONE", Len(Rec)>>) /\ l' = l + 1
TNext == Next \/ Finish
=============================================================================
