----------------------------- MODULE Trace_X86 -----------------------------
(* Trace validation of single-instruction executions against X86.tla.  Each event carries the complete pre-state
   (registers, flags, XMM if relevant, segment bases, memory overrides over the pattern layout), the instruction
   descriptor written by the generator (not decoded by ax) and the observed outcome with the post-state as a diff
   over ALL registers, flags and memory bytes.  Events come from the real Axecutor (src = "ax") and from the CPU
   (src = "hw"); both are judged by the same relation. *)
EXTENDS X86, TLC, Json, IOUtils

Rec == ndJsonDeserialize(IOEnv.TRACE)
VARIABLE l
TraceInit == l = 1

Regs16 == {"RAX","RBX","RCX","RDX","RSI","RDI","RSP","RBP","R8","R9","R10","R11","R12","R13","R14","R15"}
Flags7 == {"cf", "pf", "af", "zf", "sf", "df", "of"}
StOf(e) == [r |-> e.pre.r, x |-> e.pre.x, f |-> e.pre.f, fs |-> e.pre.fs, gs |-> e.pre.gs, rip |-> e.pre.rip, ov |-> e.pre.ov]

PostR(e) == [n \in Regs16 |-> IF n \in DOMAIN e.post.r THEN e.post.r[n] ELSE e.pre.r[n]]
PostX(e) == [n \in DOMAIN e.pre.x |-> IF n \in DOMAIN e.post.x THEN e.post.x[n] ELSE e.pre.x[n]]
ObsMem(e) == UNION {{<<e.post.m[k][1] + j - 1, e.post.m[k][2][j]>> : j \in 1..Len(e.post.m[k][2])} : k \in 1..Len(e.post.m)}
ExpMem(st, x) == UNION {{<<x.mw[k][1] + j - 1, x.mw[k][2][j]>> : j \in {jj \in 1..Len(x.mw[k][2]) : x.mw[k][2][jj] # ByteAt(st, x.mw[k][1] + jj - 1)}}
                        : k \in 1..Len(x.mw)}

FlagBad(e, x, fl) ==
  LET fx == x.fx[fl] pre == e.pre.f[fl] post == e.post.f[fl] IN
  CASE fx.s = "same" -> post # pre
    [] fx.s = "undef" -> FALSE
    [] fx.s = "def" -> IF fl = "af" /\ e.src = "ax" THEN FALSE ELSE post # fx.v     \* ax documents AF as unsupported: not judged where defined

\* what differs between the observation and an expectation x (a completing one); {} = matches
Diff(e, st, x) ==
  (IF \E n \in Regs16 \ x.any : PostR(e)[n] # x.r[n] THEN {"reg"} ELSE {})
  \cup (IF \E n \in x.any : Upper(PostR(e)[n], 4) # Zeros(4) THEN {"reg"} ELSE {})
  \cup (IF e.pre.hasx /\ PostX(e) # x.x THEN {"xmm"} ELSE {})
  \cup (IF ObsMem(e) # ExpMem(st, x) THEN {"mem"} ELSE {})
  \cup (IF \E fl \in Flags7 : FlagBad(e, x, fl) THEN {"flags"} ELSE {})
  \cup (IF e.post.otherfl THEN {"flags"} ELSE {})
  \cup (IF e.post.rip # x.rip THEN {"rip"} ELSE {})

Judge(e, st, x) ==
  IF x.out = "fault" THEN (IF e.out \in {"err", "fault"}
                           THEN (IF e.i.m \in {"push", "pop", "call", "ret"} /\ e.left # <<>> THEN {"fault-moved-state"} ELSE {})   \* C04: a refused stack access moves nothing
                           ELSE IF e.out = "ok" THEN {"out-missing-fault"} ELSE {"out-" \o e.out})
  ELSE IF e.out = "ok" THEN Diff(e, st, x)
  ELSE IF e.out = "err" THEN {"out-spurious-error"}
  ELSE {"out-" \o e.out}

StackM == {"push", "pop", "call", "ret"}
Next == /\ l <= Len(Rec)
        /\ LET e == Rec[l] IN
           IF e.i.m \notin Known THEN PrintT(<<"VERDICT", e.c, e.src, {"spec-unknown-mnemonic"}, FALSE>>)
           ELSE LET st == StOf(e)
                    b == Judge(e, st, Step(st, e.i, PostR(e)))
                    \* does the event instead match ax's documented stack convention exactly? (KNOWN_FINDINGS C04)
                    d == b # {} /\ e.i.m \in StackM /\ Judge(e, st, StepD(st, e.i, TRUE, PostR(e))) = {}
                IN IF b = {} THEN TRUE ELSE PrintT(<<"VERDICT", e.c, e.src, b, d>>)
        /\ l' = l + 1
Finish == l = Len(Rec) + 1 /\ PrintT(<<"TRACE-DONE", Len(Rec)>>) /\ l' = l + 1
TNext == Next \/ Finish
=============================================================================
