------------------------------ MODULE MC_ElfMut ------------------------------
(* Mutation enumeration for property C16: single and double mutations of the header fields of a valid ELF64 file
   with values from a boundary set, plus truncation points.  Loading is a TOTAL relation with outcomes {ok, err}
   (Encoding!Total); the mutations are printed for the binding, which applies them to real files. *)
EXTENDS Naturals, TLC, Json, FiniteSets
CONSTANTS Double, DumpEdges
Fields == {"p_type", "p_flags", "p_offset", "p_vaddr", "p_filesz", "p_memsz", "p_align", "e_phoff", "e_phnum", "e_phentsize", "e_shoff", "e_shnum",
           "e_shentsize", "e_shstrndx", "e_entry", "e_type", "e_machine", "ei_class", "ei_data", "sh_link", "sh_offset", "sh_size", "sh_entsize", "st_name"}
\* symbolic values; the binding resolves them against the concrete file (size = file size, page = 4096)
Values == {"0", "1", "size-1", "size", "size+1", "2^31", "2^32-1", "2^32", "2^63", "2^64-1", "page-1", "2^40", "2^47", "7", "0x6474e551", "0xffff"}
Which == {1, 2, 3, 4}                 \* which program / section header entry
Mut == [f : Fields, v : Values, k : Which]
VARIABLE m
Init == \/ \E a \in Mut : m = <<a>>
        \/ Double /\ \E a \in Mut, b \in Mut : a.f \in {"p_memsz", "p_filesz", "p_offset", "p_vaddr", "e_phnum", "e_phoff"} /\ a.f # b.f /\ b.f \in {"p_memsz", "p_filesz", "p_offset", "p_type", "e_phentsize", "e_shoff"} /\ a.k = b.k /\ m = <<a, b>>
Next == UNCHANGED m
Dump == IF DumpEdges THEN PrintT(<<"EDGE", ToJson(m)>>) ELSE TRUE
=============================================================================
