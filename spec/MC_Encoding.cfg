CONSTANTS
  DumpEdges = FALSE
INIT Init
NEXT Next
INVARIANT Sane
CHECK_DEADLOCK FALSE
