---------------------------- MODULE Trace_Exec ----------------------------
(* Trace validation for Exec.tla: each recorded step()/execute()/hook registration/rendering call of the
   real Axecutor is checked against the execution-loop, hook-protocol and control-flow-trace rules.
   Observable loop state (rip, count, finished, max, code_end, running, structured trace, call stack) is
   logged after every call and adopted; the flow history, shadow call depth and hook registry are carried
   by the specification. *)
EXTENDS Exec, TLC, Json, IOUtils

Rec == ndJsonDeserialize(IOEnv.TRACE)

VARIABLES l,
          s,        \* loop state [rip, count, finished, max, code_end, hasstack, depth]
          flow,     \* history: uncompressed control-flow events
          hooks,    \* registered hooks in registration order
          prev      \* the complete observation record of the previous event ("changes nothing" checks)
tvars == <<l, s, flow, hooks, prev>>

S0 == [rip |-> 0, count |-> 0, finished |-> FALSE, max |-> NoLimit, code_end |-> 0, hasstack |-> FALSE, depth |-> 0]
TraceInit == l = 1 /\ s = S0 /\ flow = <<>> /\ hooks = <<>> /\ prev = [none |-> TRUE]

\* code_end is NOT adopted: the end of the initial code is known from the scenario (start + length of the code
\* handed to the constructor) and is set at "new"
Adopt(st, o) == [st EXCEPT !.rip = o.rip, !.count = o.count, !.finished = o.finished, !.max = o.max]
ObsOf(e) == [o |-> e.obs, trace |-> e.trace, cs |-> e.cs, regs |-> e.regsdigest]

Ids(hl, when) == LET sel == SelectSeq(hl, LAMBDA x : x.when = when) IN [i \in 1..Len(sel) |-> sel[i].hid]
SameLoop(o, st) == o.rip = st.rip /\ o.count = st.count /\ o.finished = st.finished /\ o.max = st.max

\* ---- one step -------------------------------------------------------------------------------------
\* the stack height (in slots above the level init_stack left) is a projection of the logged pre-state, like the flags:
\* e.ann.sh = 0 iff RSP holds the value init_stack gave it
SD(e) == [s EXCEPT !.depth = e.ann.sh]
StepBad(e) ==
  LET g == Gate(s) a == e.ann f == e.fl o == e.obs IN
  IF g # "go" THEN
       (IF e.k # "err" THEN {"C11:step-after-" \o g \o "-did-not-fail"} ELSE {})
       \cup (IF ObsOf(e) # prev THEN {"C11:failed-step-after-" \o g \o "-changed-state"} ELSE {})
       \cup (IF e.hl # <<>> THEN {"C12:hook-ran-after-" \o g} ELSE {})
  ELSE IF e.k = "crash" THEN {"crash"}
  ELSE IF a.kind = "skip" THEN {}     \* outcome depends on memory the tracer does not know (RET/POP above the initial stack level)
  ELSE
  LET HB == HooksFor(hooks, a.mnem, "before")
      HA == HooksFor(hooks, a.mnem, "after")
      LB == Ids(e.hl, "before")
      LA == Ids(e.hl, "after")
      known == {hooks[i].hid : i \in 1..Len(hooks)}
      foreign == \E i \in 1..Len(e.hl) : \/ e.hl[i].hid \notin known
                                         \/ (LET h == ById(hooks, e.hl[i].hid) IN h.mnem # a.mnem \/ h.when # e.hl[i].when)
      order == \E i, j \in 1..Len(e.hl) : i < j /\ e.hl[i].when = "after" /\ e.hl[j].when = "before"
  IN
  IF a.kind = "nofetch" THEN
       (IF e.k # "err" THEN {"C11:unfetchable-instruction-did-not-fail"} ELSE {})
       \cup (IF o.count # s.count \/ o.finished # s.finished THEN {"C11:failed-fetch-changed-count-or-finished"} ELSE {})
       \cup (IF e.hl # <<>> THEN {"C12:hook-ran-without-instruction"} ELSE {})
  ELSE IF foreign THEN {"C12:foreign-hook-invoked"}
  ELSE IF order THEN {"C12:after-hook-before-before-hook"}
  ELSE IF ~PhaseOK(LB, HB) THEN {"C12:before-chain"}
  ELSE IF \E i \in 1..Len(e.hl) : e.hl[i].when = "before" /\ e.hl[i].rip # a.next THEN {"C12:before-hook-saw-stale-rip"}
  ELSE IF \E i \in 1..Len(e.hl) : e.hl[i].when = "before" /\ e.hl[i].count # s.count THEN {"C12:before-hook-after-effect"}
  ELSE IF \E i \in 1..Len(e.hl) : ~e.hl[i].inner_refused THEN {"C12:registration-inside-hook-accepted"}
  ELSE IF o.running THEN {"C12:running-flag-stuck"}
  ELSE IF \E i \in 1..Len(e.marks) : e.marks[i].hid \in ({LB[j] : j \in 1..Len(LB)} \cup {LA[j] : j \in 1..Len(LA)})
                                      /\ e.marks[i].val # e.marks[i].want THEN {"C12:hook-modification-lost"}
  ELSE
  LET rb == PhaseResult(LB, HB)
      nohook == a.kind = "syscall" /\ HB = <<>> /\ HA = <<>>
      s2 == Effect(SD(e), a, f)
  IN
  IF rb = "error" THEN (IF e.k # "err" THEN {"C12:failing-before-hook-step-ok"} ELSE {})
  ELSE IF rb = "stop" THEN
       \* a before hook stopped execution: the run ends without error; whether the current instruction and
       \* after hooks still run is left open; no later instruction executes (next step is gated by `finished`)
       \* (if after hooks do run and one of them fails, the step fails)
       \* (and if the instruction does run and is one that cannot complete - it faults, or it is a syscall nobody handles -
       \* the step may report THAT error: it is the instruction's, not the stop's)
       (IF PhaseResult(LA, HA) = "error" THEN (IF e.k # "err" THEN {"C12:failing-after-hook-step-ok"} ELSE {})
        ELSE IF (~Completes(a) \/ nohook) /\ e.k = "err" THEN {}
        ELSE IF e.k # "ok" \/ e.v THEN {"C12:stop-did-not-end-run-cleanly"} ELSE {})
       \cup (IF ~PhaseOKF(LA, HA, TRUE) THEN {"C12:after-chain"} ELSE {})
       \cup (IF ~o.finished THEN {"C12:stop-not-finished"} ELSE {})
       \cup (IF ~(SameLoop(o, [s2 EXCEPT !.finished = TRUE]) \/ SameLoop(o, [s EXCEPT !.finished = TRUE, !.rip = o.rip]))
             THEN {"C12:stop-left-inconsistent-loop-state"} ELSE {})
  ELSE IF ~Completes(a) \/ nohook THEN
       (IF e.k # "err" THEN {"C11:faulting-instruction-step-ok"} \cup (IF nohook THEN {"C12:unhooked-syscall-or-interrupt-completed"} ELSE {}) ELSE {})
       \cup (IF o.count # s.count \/ o.finished # s.finished THEN {"C11:failed-step-changed-count-or-finished"} ELSE {})
       \cup (IF LA # <<>> THEN {"C12:after-hook-ran-after-failed-instruction"} ELSE {})
  ELSE IF ~PhaseOKF(LA, HA, s2.finished) THEN {"C12:after-chain"}
  ELSE IF \E i \in 1..Len(e.hl) : e.hl[i].when = "after" /\ e.hl[i].rip # s2.rip THEN {"C12:after-hook-before-effect"}
  ELSE IF \E i \in 1..Len(e.hl) : e.hl[i].when = "after" /\ e.hl[i].count # s2.count THEN {"C12:after-hook-before-effect"}
  ELSE
  LET ra == PhaseResult(LA, HA) IN
  IF ra = "error" THEN (IF e.k # "err" THEN {"C12:failing-after-hook-step-ok"} ELSE {})
  ELSE
  LET s3 == IF ra = "stop" THEN [s2 EXCEPT !.finished = TRUE] ELSE s2 IN
       (IF e.k # "ok" THEN {"C11:completing-instruction-step-" \o e.k} ELSE {})
       \cup (IF e.k = "ok" /\ e.v # ~s3.finished THEN {"C11:step-return-value"} ELSE {})
       \cup (IF o.count # s3.count THEN {"C11:count"} ELSE {})
       \cup (IF o.finished # s3.finished THEN {"C11:finished"} ELSE {})
       \cup (IF o.rip # s3.rip THEN {"C11:rip"} ELSE {})
       \cup (IF o.max # s.max THEN {"C11:max-changed"} ELSE {})

\* flow after the event (the effect happened iff the count advanced)
FlowAfter(e) == IF (e.ev = "execute" \/ (e.ev = "step" /\ e.ann.kind = "skip")) /\ e.hasobs THEN Decompress(e.trace)
                ELSE IF e.ev = "step" /\ Gate(s) = "go" /\ e.ann.kind # "nofetch" /\ e.obs.count = s.count + 1
                THEN flow \o FlowEvent(SD(e), e.ann, e.fl) ELSE flow

TraceBad(e) ==
  LET fl2 == FlowAfter(e) IN
  (IF e.trace # Compress(fl2) THEN {"C18:trace-log"} ELSE {})
  \cup (IF e.cs # CallStack(fl2) THEN {"C18:call-stack"} ELSE {})

Bad(e) ==
  CASE e.ev = "step" -> StepBad(e) \cup (IF e.k # "crash" /\ e.hasobs THEN TraceBad(e) ELSE {})
    [] e.ev = "execute" ->
         \* running to completion = stepping repeatedly: on a machine whose next step is refused (finished, limit reached)
         \* execute() is refused too and changes nothing
         (IF Gate(s) # "go" /\ e.k # "err" THEN {"C11:execute-after-" \o Gate(s) \o "-did-not-fail"} ELSE {})
         \cup (IF Gate(s) # "go" /\ e.hasobs /\ ObsOf(e) # prev THEN {"C11:execute-after-" \o Gate(s) \o "-changed-state"} ELSE {})
         \cup (IF e.hasref /\ e.k # e.ref.k THEN {"C11:execute-result-differs-from-stepping"} ELSE {})
         \cup (IF e.hasref /\ ObsOf(e) # e.ref.obs THEN {"C11:execute-state-differs-from-stepping"} ELSE {})
         \cup (IF e.k = "crash" THEN {"crash"} ELSE {})
    [] e.ev = "hook" ->
         (IF e.k # "ok" THEN {"C12:registration-refused-outside-hook"} ELSE {})
    [] e.ev \in {"trace", "call_stack", "to_string"} ->
         (IF e.k # "ok" THEN {"C18:render-" \o e.ev \o "-" \o e.k} ELSE {})
         \cup (IF e.hasobs /\ ObsOf(e) # prev THEN {"C18:render-changed-state"} ELSE {})
    [] OTHER -> (IF e.k = "crash" THEN {"crash"} ELSE {})

Next == /\ l <= Len(Rec)
        /\ LET e == Rec[l] b == Bad(e) IN
             /\ IF b = {} THEN TRUE ELSE PrintT(<<"VERDICT", e.sc, e.i, e.ev, b>>)
             /\ flow' = IF e.ev = "new" THEN <<[ip |-> 0, target |-> e.obs.rip, var |-> "call"]>> ELSE FlowAfter(e)
             /\ hooks' = IF e.ev = "new" THEN <<>>
                         ELSE IF e.ev = "hook" /\ e.k = "ok" THEN Append(hooks, e.hook) ELSE hooks
             /\ s' = LET base == IF e.ev = "new" THEN [S0 EXCEPT !.code_end = e.planned_end] ELSE s
                         st == IF e.hasobs THEN Adopt(base, e.obs) ELSE base
                     IN IF e.ev = "init_stack" /\ e.k = "ok" THEN [st EXCEPT !.hasstack = TRUE, !.depth = 0] ELSE st
             /\ prev' = IF e.hasobs THEN ObsOf(e) ELSE prev
        /\ l' = l + 1

Done == l = Len(Rec) + 1 /\ PrintT(<<"TRACE-DONE", Len(Rec)>>) /\ l' = l + 1 /\ UNCHANGED <<s, flow, hooks, prev>>
TNext == Next \/ Done
=============================================================================
