------------------------------ MODULE Encoding ------------------------------
(***************************************************************************)
(* A grammar model of x86-64 instruction encodings, used to explore the    *)
(* decoder / dispatcher front end of step() systematically (property C19): *)
(*   [legacy prefixes] [REX] [escape] opcode [ModRM [SIB] [disp]] [imm]    *)
(* A shape class fixes the structural choices and leaves the remaining     *)
(* bits free (the binding fills them at random).  The step relation on     *)
(* arbitrary bytes is TOTAL: its outcome is "ok" or "err" - never a crash, *)
(* an abort or a hang.                                                     *)
(***************************************************************************)
EXTENDS Naturals, Sequences, FiniteSets

Prefix1 == {<<>>, <<102>>, <<103>>, <<242>>, <<243>>, <<46>>, <<54>>, <<62>>, <<38>>, <<100>>, <<101>>, <<240>>}
\* pairs that matter: operand+address size, size+segment, rep+size, duplicated, segment+segment
Prefix2 == {<<102, 103>>, <<103, 102>>, <<102, 101>>, <<103, 100>>, <<243, 102>>, <<242, 103>>, <<102, 102>>, <<100, 101>>, <<240, 102>>, <<46, 103>>}
Prefixes == Prefix1 \cup Prefix2
Rex  == {"none", "w", "rxb", "wrxb", "40"}
Maps == {"1", "0f", "0f38", "0f3a"}
Mods == {"none", "reg", "mem0", "mem1", "mem2"}
Rms  == {"plain", "sib", "disp32", "sibnobase"}
Imms == {0, 1, 2, 4, 8}
Ops  == {"hot", "any"}          \* opcode byte from the implemented set / any byte

Classes == {c \in [pfx : Prefixes, rex : Rex, map : Maps, mod : Mods, rm : Rms, imm : Imms, op : Ops] :
              /\ (c.mod \in {"none", "reg"} => c.rm = "plain")            \* rm refinements only for memory forms
              /\ (c.rm = "sibnobase" => c.mod = "mem0")
              /\ (c.rm = "disp32" => c.mod = "mem0")
              /\ (c.imm = 8 => c.map = "1" /\ c.mod = "none")             \* imm64 only with mov r64, imm64 / moffs
              /\ (c.map \in {"0f38", "0f3a"} => c.op = "any" /\ c.pfx \in Prefix1)}

\* upper bound of the encoded length of a class (structural bytes); longer ones still have to be handled (15-byte limit)
LenOf(c) == Len(c.pfx) + (IF c.rex = "none" THEN 0 ELSE 1) + (CASE c.map = "1" -> 1 [] c.map = "0f" -> 2 [] OTHER -> 3)
            + (IF c.mod = "none" THEN 0 ELSE 1) + (IF c.rm \in {"sib", "sibnobase"} THEN 1 ELSE 0)
            + (CASE c.mod = "mem1" -> 1 [] c.mod = "mem2" -> 4 [] c.rm \in {"disp32", "sibnobase"} -> 4 [] OTHER -> 0) + c.imm

Outcomes == {"ok", "err"}
Total(out) == out \in Outcomes
=============================================================================
