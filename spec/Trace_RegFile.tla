--------------------------- MODULE Trace_RegFile ---------------------------
(* Trace validation: every recorded register-API call of the real Axecutor must be a step
   of RegFile.  The full register file is logged after each call, so the pre-state of an event
   is the logged post-state of the previous one (the spec's expectation and the log coincide
   unless a VERDICT is printed). *)
EXTENDS RegFile, TLC, Json, IOUtils

Rec == ndJsonDeserialize(IOEnv.TRACE)

VARIABLE l
tvars == <<l, regs, ret>>

Obs(e) == [r \in ModelRegs |-> e.regs[r]]

TraceInit == /\ l = 1
             /\ regs = [r \in ModelRegs |-> Zeros(RegLen)]
             /\ ret = [k |-> "init", v |-> <<>>]

ExpWrite(e) == IF WriteOk(e.w, e.reg, e.val)
               THEN [k |-> "ok",  regs |-> WriteView(regs, e.reg, Trunc(e.val, DigitsOf(e.w)))]
               ELSE [k |-> "err", regs |-> regs]
ExpRead(e)  == IF Accepts(e.w, e.reg)
               THEN [k |-> "ok",  v |-> ZExt(ReadView(regs, e.reg), RegLen)]
               ELSE [k |-> "err", v |-> <<>>]

Bad(e) ==
  CASE e.ev = "reg_write" ->
         LET x == ExpWrite(e) IN
           (IF e.k # x.k THEN {"result"} ELSE {}) \cup (IF Obs(e) # x.regs THEN {"state"} ELSE {})
    [] e.ev = "reg_read" ->
         LET x == ExpRead(e) IN
           (IF e.k # x.k THEN {"result"} ELSE {})
           \cup (IF e.k = "ok" /\ x.k = "ok" /\ e.rv # x.v THEN {"value"} ELSE {})
           \cup (IF Obs(e) # regs THEN {"state"} ELSE {})
    [] OTHER -> {}

Next == /\ l <= Len(Rec)
        /\ LET e == Rec[l] IN
             /\ IF Bad(e) = {} THEN TRUE ELSE PrintT(<<"VERDICT", e.sc, e.i, e.ev, Bad(e)>>)
             /\ regs' = IF e.ev \in {"new", "reg_write", "reg_read"} /\ e.hasobs THEN Obs(e) ELSE regs
             /\ ret' = ret
        /\ l' = l + 1

Done == l = Len(Rec) + 1 /\ PrintT(<<"TRACE-DONE", Len(Rec)>>) /\ l' = l + 1 /\ UNCHANGED <<regs, ret>>
TNext == Next \/ Done
=============================================================================
