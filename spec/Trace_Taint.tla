----------------------------- MODULE Trace_Taint -----------------------------
(* Trace validation for C20 with PARTIALLY written registers.  Two machines run the same program; only a subset of
   the registers was written explicitly, the rest holds what each constructor's random generator left there.  Every
   "step" event carries the instruction's data-flow summary (from iced's InstructionInfo, not from ax: registers and
   flag bits read, locations written fully / partially, memory read / written) and WHERE the two machines differ
   afterwards.  The specification carries the taint set (TwoRun!TaintG, model-checked for noninterference in
   MC_Taint) and demands: an instruction whose inputs are untainted has the same outcome, error text, next RIP,
   count and log on both machines, and every untainted location agrees after every step. *)
EXTENDS TwoRun, TLC, Json, IOUtils
Rec == ndJsonDeserialize(IOEnv.TRACE)
VARIABLES l, t, live
TraceInit == l = 1 /\ t = {} /\ live = FALSE
ToSet(sq) == {sq[k] : k \in 1..Len(sq)}
SummOf(e) == [reads |-> ToSet(e.reads) \cup (IF e.mr THEN {"mem"} ELSE {}),
              wfull |-> ToSet(e.wfull),
              wpart |-> ToSet(e.wpart) \cup ToSet(e.fw) \cup ToSet(e.fu) \cup (IF e.mw THEN {"mem"} ELSE {})
                        \cup (IF e.tw THEN {"trace"} ELSE {})]       \* the control-flow log is a location: a transfer appends to it
\* flag bits an instruction DEFINES (e.fw) are, with clean inputs, a function of clean inputs: they become clean like a
\* full write; with tainted inputs they become tainted.  (They are listed in wpart for the tainted case and removed here.)
\* Architecturally undefined bits and the flags of shifts / rotates (e.fu) may be left as they were: partial.
After(e) == LET s == SummOf(e) both == e.outa = "ok" /\ e.outb = "ok"
                t1 == TaintG(t, s, both)
            IN IF Clean(t, s) /\ both THEN t1 \ ToSet(e.fw) ELSE t1
Bad(e) ==
  LET s == SummOf(e) c == Clean(t, s) t1 == After(e) IN
  (IF c /\ e.outa # e.outb THEN {"outcome"} ELSE {})
  \cup (IF c /\ "trace" \notin t /\ ~e.erreq THEN {"error-text"} ELSE {})      \* an error text renders the control-flow log and call stack
  \cup (IF c /\ ~e.ripeq THEN {"rip"} ELSE {})
  \cup (IF c /\ (~e.counteq \/ ~e.fineq) THEN {"count"} ELSE {})
  \cup (IF "trace" \notin t1 /\ ~e.traceeq THEN {"trace"} ELSE {})
  \cup (IF \E x \in ToSet(e.neq) : x \notin t1 THEN {"location"} ELSE {})
  \cup (IF "mem" \notin t1 /\ ~e.memeq THEN {"memory"} ELSE {})
Next == /\ l <= Len(Rec)
        /\ LET e == Rec[l] IN
           IF e.ev = "reset"
           THEN /\ IF e.memeq /\ e.fleq THEN TRUE ELSE PrintT(<<"VERDICT", e.c, 0 - 1, "reset", {"initial-memory-or-flags-differ"}, {}>>)
                /\ t' = ToSet(e.unwritten) /\ live' = TRUE
           ELSE LET b == IF live THEN Bad(e) ELSE {} IN
                /\ IF b = {} THEN TRUE ELSE PrintT(<<"VERDICT", e.c, e.n, e.code, b, ToSet(e.neq) \ After(e)>>)
                /\ t' = After(e)
                \* once the two runs have legitimately parted (tainted control flow or outcome) or a violation was reported,
                \* the rest of the program is not judged
                /\ live' = (live /\ b = {} /\ e.ripeq /\ e.outa = e.outb)
        /\ l' = l + 1
Finish == l = Len(Rec) + 1 /\ PrintT(<<"TRACE-DONE", Len(Rec)>>) /\ l' = l + 1 /\ UNCHANGED <<t, live>>
TNext == Next \/ Finish
=============================================================================
