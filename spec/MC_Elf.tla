------------------------------- MODULE MC_Elf -------------------------------
(* Configuration enumeration for ElfLoad.tla: up to MaxSegs PT_LOAD segments on distinct (possibly adjacent) pages
   in any order, size classes (equal, bss tail, exact page multiple, 1 byte, empty), all 8 flag masks (bounded per
   configuration), optional non-load header, symbol-table shapes.  A reference image built from the configuration
   satisfies Post, corrupted images are rejected, and every configuration is printed for the binding, which writes a
   real ELF64 file for it. *)
EXTENDS ElfLoad, TLC, Json
CONSTANTS MaxSegs, DumpEdges
VARIABLE cfg
SizeClasses == {"equal", "bss", "page", "twopage", "one", "empty", "bsspage",
                "bssonly",           \* no file content at all, 200 bytes of memory (whatever the flags)
                "ua", "ua2"}         \* virtual address NOT page aligned: 0xf00 into the page and running into the next one; 0xc0 into it
Pages == {1, 2, 4}                         \* page numbers (adjacent and separated)
Shapes == {<<"none", "none">>, <<"named", "none">>, <<"unnamed", "note">>, <<"dup", "gnustack">>, <<"entry-other-name", "none">>,
           <<"named", "gnustack">>, <<"none", "note">>,
           \* headers that refer to a loaded segment without owning memory: thread-local storage template, read-only-after-relocation range
           <<"named", "tls">>, <<"none", "tls">>, <<"none", "relro">>}
\* the configuration space is spread over Init (count, flags, symbol shape) and Next (pages, sizes) so that TLC's
\* workers share the evaluation
Init == \E n \in 1..MaxSegs, f1 \in 0..7, sh \in Shapes :
          cfg = [seed |-> TRUE, n |-> n, fl |-> [i \in 1..n |-> IF i = 1 THEN f1 ELSE 6], sy |-> sh[1], extra |-> sh[2]]
Next == /\ cfg.seed
        /\ \E pg \in [1..cfg.n -> Pages], sz \in [1..cfg.n -> SizeClasses] :
             /\ \A i, j \in 1..cfg.n : i # j => pg[i] # pg[j]
             /\ \A i \in 2..cfg.n : sz[i] \in {"equal", "page", "bss"}
             /\ \A i \in 1..cfg.n : (sz[i] \in {"twopage", "ua"} => (pg[i] + 1) \notin {pg[j] : j \in 1..cfg.n})
             /\ cfg' = [seed |-> FALSE, n |-> cfg.n, pg |-> pg, sz |-> sz, fl |-> cfg.fl, sy |-> cfg.sy, extra |-> cfg.extra]

FileSz(c) == CASE c = "equal" -> 24 [] c = "bss" -> 16 [] c = "page" -> 4096 [] c = "twopage" -> 8192 [] c = "one" -> 1 [] c = "empty" -> 0 [] c = "bsspage" -> 100
               [] c = "bssonly" -> 0 [] c = "ua" -> 128 [] c = "ua2" -> 64
VOff(c)   == CASE c = "ua" -> 3840 [] c = "ua2" -> 192 [] OTHER -> 0
MemSz(c)  == CASE c = "equal" -> 24 [] c = "bss" -> 200 [] c = "page" -> 4096 [] c = "twopage" -> 8192 [] c = "one" -> 1 [] c = "empty" -> 0 [] c = "bsspage" -> 4096
               [] c = "bssonly" -> 200 [] c = "ua" -> 384 [] c = "ua2" -> 1856
Prot(f) == (IF (f \div 4) % 2 = 1 THEN 1 ELSE 0) + (IF (f \div 2) % 2 = 1 THEN 2 ELSE 0) + (IF f % 2 = 1 THEN 4 ELSE 0)     \* PF_R=4,PF_W=2,PF_X=1 -> R=1,W=2,X=4
Data(n, k) == [i \in 1..n |-> 1 + ((i + k) % 200)]
File == [entry |-> 4194304 + cfg.pg[1] * 4096 + VOff(cfg.sz[1]),
         segs |-> [i \in 1..cfg.n |-> [load |-> TRUE, vaddr |-> 4194304 + cfg.pg[i] * 4096 + VOff(cfg.sz[i]), data |-> Data(FileSz(cfg.sz[i]), i),
                                        memsz |-> MemSz(cfg.sz[i]), prot |-> Prot(cfg.fl[i])]],
         syms |-> <<>>]
RefObs == [k |-> "ok", rip |-> File.entry, resolved |-> <<>>,
           areas |-> [i \in 1..cfg.n |-> [start |-> File.segs[i].vaddr, len |-> ((VOff(cfg.sz[i]) + File.segs[i].memsz + 4095) \div 4096) * 4096 - VOff(cfg.sz[i]), prot |-> File.segs[i].prot,
                                           nz |-> [j \in 1..Len(File.segs[i].data) |-> <<j - 1, File.segs[i].data[j]>>]]]]
Sane == cfg.seed \/
        /\ Post(File, RefObs)
        /\ ~Post(File, [RefObs EXCEPT !.rip = @ + 1])
        /\ (File.segs[1].memsz > 0 => ~Post(File, [RefObs EXCEPT !.areas[1].prot = (@ + 1) % 8]))
        /\ (Len(File.segs[1].data) > 0 => ~Post(File, [RefObs EXCEPT !.areas[1].nz = Tail(@)]))
        /\ IF DumpEdges THEN PrintT(<<"EDGE", ToJson(cfg)>>) ELSE TRUE
=============================================================================
