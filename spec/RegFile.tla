----------------------------- MODULE RegFile -----------------------------
(***************************************************************************)
(* The register API of ax as a state machine over the pure view semantics  *)
(* of RegViews.tla: one action per public call, result included.           *)
(***************************************************************************)
EXTENDS RegViews

CONSTANT ModelRegs     \* the registers carried in the state (all 17 in trace validation, a few in MC)

VARIABLES regs,     \* ModelRegs -> Seq(Digit)
          ret       \* result of the last call: [k |-> "ok"|"err", v |-> value or <<>>]
rfvars == <<regs, ret>>

RFTypeOK == /\ regs \in [ModelRegs -> [1..RegLen -> Digit]]
            /\ ret.k \in {"ok", "err", "init"}

WriteOk(w, v, val)  == Accepts(w, v) /\ Fits(val, w)
Write(w, v, val) ==
  IF WriteOk(w, v, val)
  THEN /\ regs' = WriteView(regs, v, Trunc(val, DigitsOf(w)))
       /\ ret'  = [k |-> "ok", v |-> <<>>]
  ELSE /\ regs' = regs                                      \* rejected: nothing changes
       /\ ret'  = [k |-> "err", v |-> <<>>]

Read(w, v) ==
  /\ regs' = regs
  /\ ret' = IF Accepts(w, v) THEN [k |-> "ok", v |-> ZExt(ReadView(regs, v), RegLen)]
                             ELSE [k |-> "err", v |-> <<>>]
=============================================================================
