------------------------------ MODULE MC_TwoRun ------------------------------
(* All programs of up to MaxSteps instructions on two machines that start from arbitrary (different) register
   contents: untainted registers agree in every reachable state (noninterference); and it is NOT true that all
   registers agree (the statement is not vacuous - reading an unwritten register does leak the randomness). *)
EXTENDS TwoRun, TLC
CONSTANT MaxSteps
VARIABLES a, b, t, n
vars == <<a, b, t, n>>
Init == a \in [Regs -> Vals] /\ b \in [Regs -> Vals] /\ t = Regs /\ n = 0
Next == n < MaxSteps /\ \E i \in Insns : a' = Eff(a, i) /\ b' = Eff(b, i) /\ t' = Taint(t, i) /\ n' = n + 1
C20_Noninterference == \A r \in Regs \ t : a[r] = b[r]
C20_FullyWritten == t = {} => Agree(a, b)
NotVacuous == Agree(a, b)        \* expected to be VIOLATED (checked by a separate config)
=============================================================================
