------------------------------- MODULE TwoRun -------------------------------
(***************************************************************************)
(* Determinism (property C20) as a two-run product: two machines given the *)
(* same explicit inputs may differ arbitrarily in what the constructor     *)
(* leaves in unwritten registers; every location that is not data-         *)
(* dependent on an unwritten register (not in the taint set) must agree.   *)
(*                                                                         *)
(* The model is a small register machine; the binding drives programs that *)
(* write every register before reading it, so the taint set is empty and   *)
(* the two observations must be EQUAL (Agree).                             *)
(***************************************************************************)
EXTENDS Naturals, FiniteSets, Sequences

CONSTANTS Regs, Vals

\* instructions: set r to a constant, copy, add
Insns == [op : {"set"}, r : Regs, v : Vals] \cup [op : {"copy", "add"}, r : Regs, s : Regs]
Eff(rf, i) == CASE i.op = "set"  -> [rf EXCEPT ![i.r] = i.v]
                [] i.op = "copy" -> [rf EXCEPT ![i.r] = rf[i.s]]
                [] i.op = "add"  -> [rf EXCEPT ![i.r] = (rf[i.r] + rf[i.s]) % (Cardinality(Vals))]
\* taint: registers that may still depend on unwritten (random) initial contents
Taint(t, i) == CASE i.op = "set"  -> t \ {i.r}
                 [] i.op = "copy" -> IF i.s \in t THEN t \cup {i.r} ELSE t \ {i.r}
                 [] i.op = "add"  -> IF i.s \in t \/ i.r \in t THEN t \cup {i.r} ELSE t
\* what an observer of the explicit state may compare
Agree(a, b) == a = b
=============================================================================
