------------------------------- MODULE TwoRun -------------------------------
(***************************************************************************)
(* Determinism (property C20) as a two-run product: two machines given the *)
(* same explicit inputs may differ arbitrarily in what the constructor     *)
(* leaves in unwritten registers; every location that is not data-         *)
(* dependent on an unwritten register (not in the taint set) must agree.   *)
(*                                                                         *)
(* The model is a small register machine; the binding drives programs that *)
(* write every register before reading it, so the taint set is empty and   *)
(* the two observations must be EQUAL (Agree).                             *)
(***************************************************************************)
EXTENDS Naturals, FiniteSets, Sequences

CONSTANTS Regs, Vals

\* instructions: set r to a constant, copy, add
Insns == [op : {"set"}, r : Regs, v : Vals] \cup [op : {"copy", "add"}, r : Regs, s : Regs]
Eff(rf, i) == CASE i.op = "set"  -> [rf EXCEPT ![i.r] = i.v]
                [] i.op = "copy" -> [rf EXCEPT ![i.r] = rf[i.s]]
                [] i.op = "add"  -> [rf EXCEPT ![i.r] = (rf[i.r] + rf[i.s]) % (Cardinality(Vals))]
\* taint: registers that may still depend on unwritten (random) initial contents
Taint(t, i) == CASE i.op = "set"  -> t \ {i.r}
                 [] i.op = "copy" -> IF i.s \in t THEN t \cup {i.r} ELSE t \ {i.r}
                 [] i.op = "add"  -> IF i.s \in t \/ i.r \in t THEN t \cup {i.r} ELSE t
\* what an observer of the explicit state may compare
Agree(a, b) == a = b

(***************************************************************************)
(* The general rule, independent of the instruction set: an instruction is *)
(* summarised by the locations it READS (registers - also those used to    *)
(* form addresses -, flag bits, "mem"), the locations it overwrites        *)
(* completely (wfull) and the ones it may leave partly or conditionally    *)
(* as they were (wpart: 8/16-bit register writes, read-modify-write,       *)
(* conditional moves, a store into memory).  `both` = the instruction      *)
(* completed on both machines (a refused instruction writes nothing).      *)
(***************************************************************************)
Clean(t, s) == s.reads \cap t = {}
TaintG(t, s, both) ==
  IF Clean(t, s) THEN (IF both THEN t \ s.wfull ELSE t)
  ELSE t \cup s.wfull \cup s.wpart
\* the summaries of the small machine above
Summ(i) == CASE i.op = "set"  -> [reads |-> {},         wfull |-> {i.r}, wpart |-> {}]
             [] i.op = "copy" -> [reads |-> {i.s},      wfull |-> {i.r}, wpart |-> {}]
             [] i.op = "add"  -> [reads |-> {i.r, i.s}, wfull |-> {},    wpart |-> {i.r}]
=============================================================================
