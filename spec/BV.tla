------------------------------- MODULE BV -------------------------------
(***************************************************************************)
(* Bit-vector arithmetic on little-endian digit sequences.                 *)
(*                                                                         *)
(* TLC integers are 32-bit, so every architectural value (register, memory *)
(* operand, address) is a sequence of digits  <<d1, ..., dn>>  in base     *)
(* Base = 2^DBits, least significant first.  With Base = 256 a digit is a  *)
(* byte and this is exactly the memory representation.  The module is      *)
(* generic in Base: MC_BV instantiates Base = 4 and TLC checks every       *)
(* operator against plain Nat arithmetic for all operands; trace           *)
(* validation uses the same definitions with Base = 256.                   *)
(***************************************************************************)
EXTENDS Naturals, Sequences, Bitwise

CONSTANTS Base,    \* 2^DBits
          DBits    \* bits per digit

Digit == 0 .. (Base - 1)
Pow2(n) == 2 ^ n

Zeros(n) == [i \in 1..n |-> 0]
Ones(n)  == [i \in 1..n |-> Base - 1]
IsZero(a) == \A i \in 1..Len(a) : a[i] = 0
Width(a) == Len(a) * DBits                     \* width in bits

\* truncate / extend to n digits
Trunc(a, n) == [i \in 1..n |-> a[i]]
ZExt(a, n)  == [i \in 1..n |-> IF i <= Len(a) THEN a[i] ELSE 0]
Msb(a)      == IF a[Len(a)] >= Base \div 2 THEN 1 ELSE 0
SExt(a, n)  == [i \in 1..n |-> IF i <= Len(a) THEN a[i] ELSE IF Msb(a) = 1 THEN Base - 1 ELSE 0]
Upper(a, k) == [i \in 1..(Len(a) - k) |-> a[i + k]]      \* drop the k low digits
Cat(lo, hi) == lo \o hi                                    \* lo = low digits

\* bit j (0 = least significant) of a
Bit(a, j) == (a[(j \div DBits) + 1] \div Pow2(j % DBits)) % 2
\* a from a bit function  f : 0..(n*DBits-1) -> {0,1}
FromBits(f, n) == [i \in 1..n |->
                     LET RECURSIVE S(_)
                         S(t) == IF t = DBits THEN 0 ELSE f[(i-1)*DBits + t] * Pow2(t) + S(t+1)
                     IN S(0)]

(***************************************************************************)
(* Addition / subtraction with carry / borrow                              *)
(***************************************************************************)
AddC(a, b, cin) ==
  LET n == Len(a)
      c[i \in 0..n] == IF i = 0 THEN cin ELSE (a[i] + b[i] + c[i-1]) \div Base
  IN [r |-> [i \in 1..n |-> (a[i] + b[i] + c[i-1]) % Base], c |-> c[n],
      \* carry out of bit 3 (auxiliary carry); only meaningful for DBits >= 4
      ac |-> IF DBits >= 4 THEN ((a[1] % 16) + (b[1] % 16) + cin) \div 16 ELSE 0]

SubB(a, b, bin) ==
  LET n == Len(a)
      bo[i \in 0..n] == IF i = 0 THEN bin ELSE IF a[i] < b[i] + bo[i-1] THEN 1 ELSE 0
  IN [r |-> [i \in 1..n |-> (a[i] + Base - b[i] - bo[i-1]) % Base], c |-> bo[n],
      ac |-> IF DBits >= 4 THEN (IF (a[1] % 16) < (b[1] % 16) + bin THEN 1 ELSE 0) ELSE 0]

Add(a, b) == AddC(a, b, 0).r
Sub(a, b) == SubB(a, b, 0).r
Neg(a)    == SubB(Zeros(Len(a)), a, 0).r
BNot(a)   == [i \in 1..Len(a) |-> Base - 1 - a[i]]
BAnd(a, b) == [i \in 1..Len(a) |-> a[i] & b[i]]
BOr(a, b)  == [i \in 1..Len(a) |-> a[i] | b[i]]
BXor(a, b) == [i \in 1..Len(a) |-> a[i] ^^ b[i]]

\* unsigned comparison
RECURSIVE LtFrom(_, _, _)
LtFrom(a, b, i) == IF i = 0 THEN FALSE
                   ELSE IF a[i] # b[i] THEN a[i] < b[i] ELSE LtFrom(a, b, i - 1)
ULt(a, b) == LtFrom(a, b, Len(a))
ULe(a, b) == ~ULt(b, a)
\* signed comparison
SLt(a, b) == IF Msb(a) # Msb(b) THEN Msb(a) = 1 ELSE ULt(a, b)

\* signed overflow of a + b (+c) resp. a - b (-c), from the signs
AddOF(a, b, r) == IF Msb(a) = Msb(b) /\ Msb(r) # Msb(a) THEN 1 ELSE 0
SubOF(a, b, r) == IF Msb(a) # Msb(b) /\ Msb(r) # Msb(a) THEN 1 ELSE 0

\* parity flag of the least significant BYTE (even number of one bits -> 1).
\* For DBits < 8 the low byte spans several digits; MC uses min(8, Width) bits.
ParityBits(a) == IF Width(a) < 8 THEN Width(a) ELSE 8
Parity(a) == LET RECURSIVE Cnt(_)
                 Cnt(j) == IF j = ParityBits(a) THEN 0 ELSE Bit(a, j) + Cnt(j + 1)
             IN IF Cnt(0) % 2 = 0 THEN 1 ELSE 0

(***************************************************************************)
(* Shifts (count in bits, 0 <= c; result has Len(a) digits)                *)
(***************************************************************************)
ShiftL(a, c) == FromBits([j \in 0..(Width(a) - 1) |-> IF j >= c THEN Bit(a, j - c) ELSE 0], Len(a))
ShiftR(a, c) == FromBits([j \in 0..(Width(a) - 1) |-> IF j + c < Width(a) THEN Bit(a, j + c) ELSE 0], Len(a))

(***************************************************************************)
(* Widening multiplication: Len(a) = Len(b) = n  ->  2n digits             *)
(***************************************************************************)
UMul(a, b) ==
  LET n == Len(a)
      \* column k (1..2n) = sum of a[i]*b[k+1-i]
      Col(k) == LET RECURSIVE S(_)
                    S(i) == IF i > n THEN 0
                            ELSE (IF k + 1 - i >= 1 /\ k + 1 - i <= n THEN a[i] * b[k + 1 - i] ELSE 0) + S(i + 1)
                IN S(1)
      cy[k \in 0..(2*n)] == IF k = 0 THEN 0 ELSE (Col(k) + cy[k-1]) \div Base
  IN [k \in 1..(2*n) |-> (Col(k) + cy[k-1]) % Base]

\* signed widening multiplication via sign extension to 2n digits, low 2n digits of the product
SMul(a, b) ==
  LET n == Len(a)
      ax == SExt(a, 2*n)
      bx == SExt(b, 2*n)
  IN Trunc(UMul(ax, bx), 2*n)

(***************************************************************************)
(* Unsigned long division of an m-digit dividend by an n-digit divisor     *)
(* (d # 0).  Returns [q |-> m digits, r |-> n digits].  Bit-serial         *)
(* restoring division, most significant bit first.                         *)
(***************************************************************************)
UDivMod(num, d) ==
  LET m  == Len(num)
      n  == Len(d)
      dx == ZExt(d, n + 1)
      \* st[j] = state after processing the top j bits: [r (n+1 digits), q (bit function as set of bit indexes)]
      RECURSIVE Go(_, _, _)
      Go(j, r, q) ==
        IF j < 0 THEN [q |-> q, r |-> r]
        ELSE LET r2 == \* (r << 1) | bit j of num
                       LET sh == ShiftL(r, 1)
                       IN [sh EXCEPT ![1] = sh[1] + Bit(num, j)]
             IN IF ULe(dx, r2) THEN Go(j - 1, Sub(r2, dx), q \cup {j})
                               ELSE Go(j - 1, r2, q)
      res == Go(Width(num) - 1, Zeros(n + 1), {})
  IN [q |-> FromBits([j \in 0..(Width(num) - 1) |-> IF j \in res.q THEN 1 ELSE 0], m),
      r |-> Trunc(res.r, n)]

Abs(a) == IF Msb(a) = 1 THEN Neg(a) ELSE a

=============================================================================
