------------------------------- MODULE BV -------------------------------
(***************************************************************************)
(* Bit-vector arithmetic on little-endian digit sequences.                 *)
(*                                                                         *)
(* TLC integers are 32-bit, so every architectural value (register, memory *)
(* operand, address) is a sequence of digits  <<d1, ..., dn>>  in base     *)
(* Base = 2^DBits, least significant first.  With Base = 256 a digit is a  *)
(* byte and this is exactly the memory representation.  The module is      *)
(* generic in Base: MC_BV instantiates Base = 4 and TLC checks every       *)
(* operator against plain Nat arithmetic for all operands; trace           *)
(* validation uses the same definitions with Base = 256.                   *)
(***************************************************************************)
EXTENDS Naturals, Sequences, Bitwise

CONSTANTS Base,    \* 2^DBits
          DBits    \* bits per digit

Digit == 0 .. (Base - 1)
Pow2(n) == 2 ^ n

Zeros(n) == [i \in 1..n |-> 0]
Ones(n)  == [i \in 1..n |-> Base - 1]
IsZero(a) == \A i \in 1..Len(a) : a[i] = 0
Width(a) == Len(a) * DBits                     \* width in bits

\* truncate / extend to n digits
Trunc(a, n) == [i \in 1..n |-> a[i]]
ZExt(a, n)  == [i \in 1..n |-> IF i <= Len(a) THEN a[i] ELSE 0]
Msb(a)      == IF a[Len(a)] >= Base \div 2 THEN 1 ELSE 0
SExt(a, n)  == [i \in 1..n |-> IF i <= Len(a) THEN a[i] ELSE IF Msb(a) = 1 THEN Base - 1 ELSE 0]
Upper(a, k) == [i \in 1..(Len(a) - k) |-> a[i + k]]      \* drop the k low digits
Cat(lo, hi) == lo \o hi                                    \* lo = low digits

\* bit j (0 = least significant) of a
Bit(a, j) == (a[(j \div DBits) + 1] \div Pow2(j % DBits)) % 2
\* a from a bit function  f : 0..(n*DBits-1) -> {0,1}
FromBits(f, n) == [i \in 1..n |->
                     LET RECURSIVE S(_)
                         S(t) == IF t = DBits THEN 0 ELSE f[(i-1)*DBits + t] * Pow2(t) + S(t+1)
                     IN S(0)]

(***************************************************************************)
(* Addition / subtraction with carry / borrow                              *)
(***************************************************************************)
RECURSIVE AddSeq(_, _, _, _)            \* <<sum digits..., carry out>>
AddSeq(a, b, c, i) == IF i > Len(a) THEN <<c>>
                      ELSE LET t == a[i] + b[i] + c IN <<t % Base>> \o AddSeq(a, b, t \div Base, i + 1)
AddC(a, b, cin) ==
  LET n == Len(a) x == AddSeq(a, b, cin, 1)
  IN [r |-> SubSeq(x, 1, n), c |-> x[n + 1],
      \* carry out of bit 3 (auxiliary carry); only meaningful for DBits >= 4
      ac |-> IF DBits >= 4 THEN ((a[1] % 16) + (b[1] % 16) + cin) \div 16 ELSE 0]

RECURSIVE SubSeq2(_, _, _, _)           \* <<difference digits..., borrow out>>
SubSeq2(a, b, bo, i) == IF i > Len(a) THEN <<bo>>
                        ELSE LET t == a[i] + Base - b[i] - bo IN <<t % Base>> \o SubSeq2(a, b, 1 - (t \div Base), i + 1)
SubB(a, b, bin) ==
  LET n == Len(a) x == SubSeq2(a, b, bin, 1)
  IN [r |-> SubSeq(x, 1, n), c |-> x[n + 1],
      ac |-> IF DBits >= 4 THEN (IF (a[1] % 16) < (b[1] % 16) + bin THEN 1 ELSE 0) ELSE 0]

Add(a, b) == AddC(a, b, 0).r
Sub(a, b) == SubB(a, b, 0).r
Neg(a)    == SubB(Zeros(Len(a)), a, 0).r
BNot(a)   == [i \in 1..Len(a) |-> Base - 1 - a[i]]
BAnd(a, b) == [i \in 1..Len(a) |-> a[i] & b[i]]
BOr(a, b)  == [i \in 1..Len(a) |-> a[i] | b[i]]
BXor(a, b) == [i \in 1..Len(a) |-> a[i] ^^ b[i]]

\* unsigned comparison
RECURSIVE LtFrom(_, _, _)
LtFrom(a, b, i) == IF i = 0 THEN FALSE
                   ELSE IF a[i] # b[i] THEN a[i] < b[i] ELSE LtFrom(a, b, i - 1)
ULt(a, b) == LtFrom(a, b, Len(a))
ULe(a, b) == ~ULt(b, a)
\* signed comparison
SLt(a, b) == IF Msb(a) # Msb(b) THEN Msb(a) = 1 ELSE ULt(a, b)

\* signed overflow of a + b (+c) resp. a - b (-c), from the signs
AddOF(a, b, r) == IF Msb(a) = Msb(b) /\ Msb(r) # Msb(a) THEN 1 ELSE 0
SubOF(a, b, r) == IF Msb(a) # Msb(b) /\ Msb(r) # Msb(a) THEN 1 ELSE 0

\* parity flag of the least significant BYTE (even number of one bits -> 1).
\* For DBits < 8 the low byte spans several digits; MC uses min(8, Width) bits.
ParityBits(a) == IF Width(a) < 8 THEN Width(a) ELSE 8
Parity(a) == LET RECURSIVE Cnt(_)
                 Cnt(j) == IF j = ParityBits(a) THEN 0 ELSE Bit(a, j) + Cnt(j + 1)
             IN IF Cnt(0) % 2 = 0 THEN 1 ELSE 0

(***************************************************************************)
(* Shifts (count in bits, 0 <= c; result has Len(a) digits)                *)
(***************************************************************************)
\* digit-wise: c = q digits + r bits
ShiftL(a, c) ==
  LET n == Len(a) q == c \div DBits r == c % DBits p == Pow2(r) IN
  [i \in 1..n |-> ((IF i - q >= 1 THEN a[i - q] * p ELSE 0) % Base) + ((IF i - q - 1 >= 1 THEN a[i - q - 1] * p ELSE 0) \div Base)]
ShiftR(a, c) ==
  LET n == Len(a) q == c \div DBits r == c % DBits p == Pow2(r) m == Pow2(DBits - r) IN
  [i \in 1..n |-> ((IF i + q <= n THEN a[i + q] ELSE 0) \div p) + (((IF i + q + 1 <= n THEN a[i + q + 1] ELSE 0) * m) % Base)]

(***************************************************************************)
(* Widening multiplication: Len(a) = Len(b) = n  ->  2n digits             *)
(***************************************************************************)
UMul(a, b) ==
  LET n == Len(a)
      \* column k (1..2n) = sum of a[i]*b[k+1-i]
      Col(k) == LET lo == IF k - n + 1 > 1 THEN k - n + 1 ELSE 1
                    hi == IF k < n THEN k ELSE n
                    RECURSIVE S(_)
                    S(i) == IF i > hi THEN 0 ELSE a[i] * b[k + 1 - i] + S(i + 1)
                IN S(lo)
      RECURSIVE Go(_, _)              \* digits from column k on, with incoming carry
      Go(k, cy) == IF k > 2 * n THEN <<>> ELSE LET t == Col(k) + cy IN <<t % Base>> \o Go(k + 1, t \div Base)
  IN Go(1, 0)

\* signed widening multiplication via sign extension to 2n digits, low 2n digits of the product
SMul(a, b) ==
  LET n == Len(a)
      ax == SExt(a, 2*n)
      bx == SExt(b, 2*n)
  IN Trunc(UMul(ax, bx), 2*n)

(***************************************************************************)
(* Unsigned long division of an m-digit dividend by an n-digit divisor     *)
(* (d # 0).  Returns [q |-> m digits, r |-> n digits].  Bit-serial         *)
(* restoring division, most significant bit first.                         *)
(***************************************************************************)
UDivMod(num, d) ==
  LET m  == Len(num)
      n  == Len(d)
      dx == ZExt(d, n + 1)
      RECURSIVE Go(_, _, _)
      Go(j, r, q) ==
        IF j < 0 THEN [q |-> q, r |-> r]
        ELSE LET r2 == AddC(r, r, Bit(num, j)).r            \* (r << 1) | bit j of num
             IN IF ULe(dx, r2) THEN Go(j - 1, Sub(r2, dx), q \cup {j})
                               ELSE Go(j - 1, r2, q)
      res == Go(Width(num) - 1, Zeros(n + 1), {})
  IN [q |-> FromBits([j \in 0..(Width(num) - 1) |-> IF j \in res.q THEN 1 ELSE 0], m),
      r |-> Trunc(res.r, n)]

Abs(a) == IF Msb(a) = 1 THEN Neg(a) ELSE a

(***************************************************************************)
(* Division as a relation (what DIV / IDIV need): does the quotient of the *)
(* 2n-digit dividend num by the n-digit divisor d (d # 0) fit in n digits, *)
(* and is (q, r) the quotient and remainder?  No division is computed.     *)
(***************************************************************************)
UDivFits(num, d) == ULt(Upper(num, Len(d)), d)
UDivRel(num, d, q, r) == Add(UMul(q, d), ZExt(r, 2 * Len(d))) = num /\ ULt(r, d)

\* signed (truncating) division; magnitudes as unsigned numbers
SDivFits(num, d) ==
  LET n == Len(d)
      nm == Abs(num)  dm == ZExt(Abs(d), 2 * n)
      lim == ShiftL(dm, n * DBits - 1)                          \* |d| * 2^(w-1)
  IN IF Msb(num) = Msb(d) THEN ULt(nm, lim)                     \* quotient >= 0: |num| div |d| <= 2^(w-1) - 1
     ELSE ULt(nm, Add(lim, dm))                                 \* quotient <= 0: |num| div |d| <= 2^(w-1)
SDivRel(num, d, q, r) ==
  /\ Add(SMul(q, d), SExt(r, 2 * Len(d))) = num
  /\ ULt(Abs(r), Abs(d))
  /\ (IsZero(r) \/ Msb(r) = Msb(num))

=============================================================================
