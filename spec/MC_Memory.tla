---------------------------- MODULE MC_Memory ----------------------------
(* Bounded exhaustive exploration of Memory.tla.  A flat shadow memory (address -> byte, protection) is
   maintained independently of the area list; the invariants relate the two (ground truth), and every
   read result is checked against the shadow on every explored edge. *)
EXTENDS Memory, TLC, Json

CONSTANTS MaxAddr,     \* addresses 0..MaxAddr are used for areas
          MaxAreas, MaxDepth, DumpEdges

VARIABLES areas, flat, ret, last, hist
vars == <<areas, flat, ret, last, hist>>
View == <<areas, flat>>

Line == 0..(MaxAddr + 4)
U == [u |-> TRUE]                                  \* unmapped marker in the flat memory
Cell(b, p) == [b |-> b, p |-> p]
Datas == {<<>>, <<1>>, <<1, 2>>, <<2, 1, 2>>}
ZLens == {0, 1, 3}
Addrs == 0..MaxAddr
FarAddrs == {HUGE - 1, HUGE - 2}                   \* images of 2^64-1, 2^64-2
Lens  == {0, 1, 2, 3}
FarLens == {HUGE - 1, HUGE - 4}

Init == /\ areas = <<>>
        /\ flat = [x \in Line |-> U]
        /\ ret = [k |-> "init", v |-> <<>>]
        /\ last = [op |-> "init"]
        /\ hist = <<>>

\* flat-memory effect of the operations, written independently of the area representation
FlatCreate(f, s, data) == [x \in Line |-> IF x >= s /\ x < s + Len(data) THEN Cell(data[x - s + 1], RW) ELSE f[x]]
FlatWrite(f, a, bytes) == [x \in Line |-> IF x >= a /\ x < a + Len(bytes) THEN Cell(bytes[x - a + 1], f[x].p) ELSE f[x]]
FlatResize(f, s, old, n, p) == [x \in Line |-> IF x >= s + n /\ x < s + old THEN U
                                               ELSE IF x >= s + old /\ x < s + n THEN Cell(0, p) ELSE f[x]]
FlatProt(f, s, n, p) == [x \in Line |-> IF x >= s /\ x < s + n THEN Cell(f[x].b, p) ELSE f[x]]

Record(op) == last' = op /\ hist' = Append(hist, op)

Create(s, data, op) ==
  /\ Len(areas) < MaxAreas
  /\ s + Len(data) <= MaxAddr + 1
  /\ \E o \in InitAreaOutcomes(areas, s, data) :
       /\ areas' = o.areas /\ ret' = [k |-> o.k, v |-> o.v]
       /\ flat' = IF o.k = "ok" THEN FlatCreate(flat, s, data) ELSE flat
  /\ Record(op)

Anywhere(data) ==
  /\ Len(areas) < MaxAreas
  /\ \E s \in Addrs : /\ s + Len(data) <= MaxAddr + 1
                      /\ FreshAt(areas, s, Len(data))
                      /\ LET o == AnywhereOutcome(areas, data, s) IN
                           /\ Assert(AnywhereAllowed(areas, data, o), "AnywhereAllowed")
                           /\ areas' = o.areas /\ ret' = [k |-> o.k, v |-> o.v]
                           /\ flat' = FlatCreate(flat, s, data)
  /\ Record([op |-> "mem_init_anywhere", data |-> data])

Resize(s, n) ==
  /\ s + n <= MaxAddr + 4
  /\ \E o \in ResizeOutcomes(areas, s, n) :
       /\ areas' = o.areas /\ ret' = [k |-> o.k, v |-> o.v]
       /\ flat' = IF o.k = "ok"
                  THEN LET i == CHOOSE i \in 1..Len(areas) : areas[i].start = s /\ o.areas[i].len = n
                                                              /\ \A j \in 1..Len(areas) : j # i => o.areas[j] = areas[j]
                       IN FlatResize(flat, s, areas[i].len, n, areas[i].prot)
                  ELSE flat
  /\ Record([op |-> "mem_resize_section", start |-> s, new |-> n])

Prot(s, p) ==
  /\ \E o \in ProtOutcomes(areas, s, p) :
       /\ areas' = o.areas /\ ret' = [k |-> o.k, v |-> o.v]
       /\ flat' = IF o.k = "ok"
                  THEN LET i == CHOOSE i \in 1..Len(areas) : areas[i].start = s /\ o.areas[i].prot = p
                                                              /\ \A j \in 1..Len(areas) : j # i => o.areas[j] = areas[j]
                       IN FlatProt(flat, s, areas[i].len, p)
                  ELSE flat
  /\ Record([op |-> "mem_prot", start |-> s, prot |-> p])

ReadOp(a, n) ==
  /\ \E o \in ReadOutcomes(areas, a, n, PR) :
       /\ areas' = o.areas /\ ret' = [k |-> o.k, v |-> o.v]
  /\ flat' = flat
  /\ Record([op |-> "mem_read_bytes", addr |-> a, len |-> n])

WriteOp(a, bytes) ==
  /\ \E o \in WriteOutcomes(areas, a, bytes, PW, PW) :
       /\ areas' = o.areas /\ ret' = [k |-> o.k, v |-> o.v]
       /\ flat' = IF o.k = "ok" THEN FlatWrite(flat, a, bytes) ELSE flat
  /\ Record([op |-> "mem_write_bytes", addr |-> a, data |-> bytes])

Next ==
  /\ Len(hist) < MaxDepth
  /\ \/ \E s \in Addrs, d \in Datas : Create(s, d, [op |-> "mem_init_area", start |-> s, data |-> d])
     \/ \E s \in Addrs, n \in ZLens : Create(s, Zeros(n), [op |-> "mem_init_zero", start |-> s, len |-> n])
     \/ \E d \in {<<>>, <<2>>, <<1, 2, 1>>} : Anywhere(d)
     \/ \E s \in Addrs, n \in 0..4 : Resize(s, n)
     \/ \E s \in Addrs, p \in 0..7 : Prot(s, p)
     \/ \E a \in Addrs \cup FarAddrs, n \in Lens \cup FarLens : ReadOp(a, n)
     \/ \E a \in Addrs \cup FarAddrs, b \in {<<>>, <<2>>, <<2, 2>>, <<1, 1, 1>>} : WriteOp(a, b)

(* ---------------- invariants: the properties, on the flat ground truth ---------------- *)
C10_NoOverlap == NoOverlap(areas)                  \* every address belongs to at most one area
Coherent ==                                         \* area list and flat memory describe the same store
  /\ WellFormed(areas)
  /\ \A i \in 1..Len(areas) : \A j \in 1..areas[i].len :
        flat[areas[i].start + j - 1] = Cell(areas[i].data[j], areas[i].prot)
  /\ \A x \in Line : flat[x] # U => \E i \in 1..Len(areas) : areas[i].start <= x /\ x < End(areas[i])

Mapped(x) == x \in Line /\ flat[x] # U
\* C08/C09 on every edge: a successful read returns exactly the flat bytes, every byte mapped and readable,
\* contiguous in one area; a failing read/write and every read leave memory unchanged; a successful write
\* changes exactly the addressed bytes and needs write permission everywhere.
ReadLaw ==
  last'.op = "mem_read_bytes" =>
    LET a == last'.addr n == last'.len IN
    /\ flat' = flat /\ areas' = areas
    /\ (ret'.k = "ok" /\ n > 0) =>
          /\ \A j \in 0..(n-1) : Mapped(a + j) /\ HasBit(flat[a + j].p, PR) /\ ret'.v[j + 1] = flat[a + j].b
    /\ (ret'.k = "err" /\ n > 0) =>
          \/ \E j \in 0..(IF n > MaxAddr + 4 THEN MaxAddr + 4 ELSE n - 1) : ~Mapped(a + j) \/ ~HasBit(flat[a + j].p, PR)
          \/ \E j \in 1..(n-1) : Mapped(a + j) /\ Mapped(a + j - 1) /\    \* range spans two abutting areas
                 ~\E i \in 1..Len(areas) : areas[i].start <= a + j - 1 /\ a + j < End(areas[i])
WriteLaw ==
  last'.op = "mem_write_bytes" =>
    LET a == last'.addr b == last'.data n == Len(last'.data) IN
    /\ ret'.k = "err" => (flat' = flat /\ areas' = areas)
    /\ (ret'.k = "ok" /\ n > 0) =>
          /\ \A j \in 0..(n-1) : Mapped(a + j) /\ HasBit(flat[a + j].p, PW) /\ flat'[a + j].b = b[j + 1]
          /\ \A x \in Line : (x < a \/ x >= a + n) => flat'[x] = flat[x]
    /\ (ret'.k = "err" /\ n > 0) =>
          \/ \E j \in 0..(n-1) : ~Mapped(a + j) \/ ~HasBit(flat[a + j].p, PW)
          \/ \E j \in 1..(n-1) : Mapped(a + j) /\ Mapped(a + j - 1) /\
                 ~\E i \in 1..Len(areas) : areas[i].start <= a + j - 1 /\ a + j < End(areas[i])
\* C10 on every edge: creation never steals a mapped address; resize keeps the prefix and zero-fills
AllocLaw ==
  /\ last'.op \in {"mem_init_area", "mem_init_zero", "mem_init_anywhere"} =>
       \A x \in Line : flat[x] # U => flat'[x] = flat[x]
  /\ (last'.op = "mem_init_anywhere") =>
       /\ ret'.k = "ok"
       /\ \A j \in 0..(Len(last'.data) - 1) : ~Mapped(ret'.v + j) /\ flat'[ret'.v + j] = Cell(last'.data[j + 1], RW)
  /\ (last'.op = "mem_resize_section" /\ ret'.k = "ok") =>
       LET s == last'.start n == last'.new IN
       \A x \in Line : (x >= s /\ x < s + n) =>
            /\ flat'[x] # U
            /\ (flat[x] # U => flat'[x] = flat[x])               \* common prefix kept
            /\ (flat[x] = U => flat'[x].b = 0)                    \* growth zero-filled
  /\ (last'.op = "mem_resize_section" /\ ret'.k = "err") => flat' = flat

EdgeCheck ==
  /\ Assert(ReadLaw, <<"ReadLaw violated", last'>>)
  /\ Assert(WriteLaw, <<"WriteLaw violated", last'>>)
  /\ Assert(AllocLaw, <<"AllocLaw violated", last'>>)
  /\ IF DumpEdges THEN PrintT(<<"EDGE", ToJson([hist |-> hist', ret |-> ret'.k])>>) ELSE TRUE
=============================================================================
