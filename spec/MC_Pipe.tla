----------------------------- MODULE MC_Pipe -----------------------------
(* Bounded exploration of Pipe.tla with history variables: written[r] / readout[r] are everything ever written to /
   returned from pipe r.  Invariants: FIFO (what was read is a prefix of what was written, nothing lost or
   duplicated), conservation, disjointness; calls on non-pipe descriptors are never absorbed. *)
EXTENDS Pipe, TLC, Json, SequencesExt

CONSTANTS MaxPipes, MaxOps, DumpEdges
VARIABLES ends, buf, written, readout, passed, last, hist
vars == <<ends, buf, written, readout, passed, last, hist>>
View == <<ends, buf, written, readout>>

Fds == 1..(2 * MaxPipes)
NonPipe == {0, 99}
Chunks == {<<>>, <<1>>, <<2, 1>>, <<1, 2, 2>>}

Init == ends = {} /\ buf = <<>> /\ written = <<>> /\ readout = <<>> /\ passed = 0 /\ last = [op |-> "init"] /\ hist = <<>>

Rec(op) == last' = op /\ hist' = Append(hist, op)

Create == /\ Cardinality(ends) < MaxPipes
          /\ LET r == 2 * Cardinality(ends) + 1 w == r + 1 IN
               /\ ends' = ends \cup {[r |-> r, w |-> w]}
               /\ buf' = [x \in DOMAIN buf \cup {r} |-> IF x = r THEN <<>> ELSE buf[x]]
               /\ Assert(CreateOK(ends, buf, ends', buf', r, w), "CreateOK")
               /\ written' = [x \in DOMAIN written \cup {r} |-> IF x = r THEN <<>> ELSE written[x]]
               /\ readout' = [x \in DOMAIN readout \cup {r} |-> IF x = r THEN <<>> ELSE readout[x]]
               /\ passed' = passed
               /\ Rec([op |-> "pipe", k |-> Cardinality(ends)])

Write(fd, data) ==
  /\ IF IsPipeWrite(ends, fd)
     THEN /\ buf' = WriteBuf(ends, buf, fd, data)
          /\ written' = [written EXCEPT ![ReadEndOf(ends, fd)] = @ \o data]
          /\ passed' = passed
     ELSE /\ UNCHANGED <<buf, written>> /\ passed' = passed + 1          \* left for other syscall hooks
  /\ UNCHANGED <<ends, readout>>
  /\ Rec([op |-> "write", fd |-> fd, data |-> data])

Read(fd, n) ==
  /\ IF IsPipeRead(ends, fd)
     THEN /\ buf' = ReadBuf(buf, fd, n)
          /\ readout' = [readout EXCEPT ![fd] = @ \o ReadData(buf, fd, n)]
          /\ passed' = passed
     ELSE /\ UNCHANGED <<buf, readout>> /\ passed' = passed + 1
  /\ UNCHANGED <<ends, written>>
  /\ Rec([op |-> "read", fd |-> fd, n |-> n])

Next == /\ Len(hist) < MaxOps
        /\ \/ Create
           \/ \E fd \in Fds \cup NonPipe, d \in Chunks : Write(fd, d)
           \/ \E fd \in Fds \cup NonPipe, n \in 0..3 : Read(fd, n)

C14_Fifo == \A r \in DOMAIN buf : IsPrefix(readout[r], written[r])            \* in order, no loss, no duplication
C14_Conservation == \A r \in DOMAIN buf : written[r] = readout[r] \o buf[r]
C14_Ends == /\ \A p, q \in ends : p # q => {p.r, p.w} \cap {q.r, q.w} = {}
            /\ \A p \in ends : p.r # p.w /\ p.r \in DOMAIN buf
ReadLaw == last'.op = "read" /\ IsPipeRead(ends, last'.fd) =>
             LET got == Len(readout'[last'.fd]) - Len(readout[last'.fd]) IN got <= last'.n /\ got <= Len(buf[last'.fd])
                 /\ \A r \in DOMAIN buf \ {last'.fd} : buf'[r] = buf[r]                        \* distinct pipes never share data
EdgeCheck == /\ Assert(ReadLaw, <<"ReadLaw", last'>>)
             /\ IF DumpEdges THEN PrintT(<<"EDGE", ToJson([hist |-> hist'])>>) ELSE TRUE
=============================================================================
