------------------------------ MODULE MC_Stack ------------------------------
(* Short programs mixing PUSH / POP / CALL / RET with RSP-relative stores and loads, executed with the step
   relation of X86.tla.  With Dev = FALSE (the architecture) the consequences named by property C04 hold on every
   edge: a value stored to [RSP] is what the next POP returns, PUSH and CALL leave every byte at or above the old
   RSP alone, RET consumes the slot RSP points at.  With Dev = TRUE (ax's convention: store at the old RSP and then
   decrement; increment and then load) TLC finds the counterexample - the machine-checked statement of the known
   finding, and the evidence that the laws are not vacuous. *)
EXTENDS X86, TLC

CONSTANTS Dev, MaxSteps
VARIABLES st, topstore, n
vars == <<st, topstore, n>>

R(name) == [k |-> "reg", r |-> name, w |-> 64, base |-> "", index |-> "", scale |-> 1, disp |-> Z8, seg |-> "", asz |-> 64, v |-> Z8]
MRsp == [k |-> "mem", r |-> "", w |-> 64, base |-> "RSP", index |-> "", scale |-> 1, disp |-> Z8, seg |-> "", asz |-> 64, v |-> Z8]
Br(t) == [k |-> "br", r |-> "", w |-> 0, base |-> "", index |-> "", scale |-> 1, disp |-> Z8, seg |-> "", asz |-> 64, v |-> OfInt(t)]
I(m, code, ops) == [m |-> m, code |-> code, len |-> 1, ops |-> ops]
Prog == {I("push", "Push_r64", <<R("RAX")>>), I("push", "Push_r64", <<R("RBX")>>), I("pop", "Pop_r64", <<R("RAX")>>),
         I("pop", "Pop_r64", <<R("RBX")>>), I("mov", "Mov_rm64_r64", <<MRsp, R("RAX")>>), I("mov", "Mov_r64_rm64", <<R("RBX"), MRsp>>),
         I("call", "Call_rel32_64", <<Br(1049088)>>), I("ret", "Retnq", <<>>)}

V(k) == [i \in 1..8 |-> IF i = 1 THEN k ELSE 0]
Regs0 == [RAX |-> V(17), RBX |-> V(34), RCX |-> Z8, RDX |-> Z8, RSI |-> Z8, RDI |-> Z8, RSP |-> OfInt(4194304 + 2048), RBP |-> Z8,
          R8 |-> Z8, R9 |-> Z8, R10 |-> Z8, R11 |-> Z8, R12 |-> Z8, R13 |-> Z8, R14 |-> Z8, R15 |-> Z8]
Init == /\ st = [r |-> Regs0, x |-> <<>>, f |-> [cf |-> 0, pf |-> 0, af |-> 0, zf |-> 0, sf |-> 0, df |-> 0, of |-> 0],
                 fs |-> Z8, gs |-> Z8, rip |-> OfInt(1050624), ov |-> <<>>]
        /\ topstore = <<>> /\ n = 0

Laws(i, x) ==
  LET rsp == ToInt(st.r["RSP"]) IN
  /\ (i.m \in {"push", "call"}) => \A k \in 1..Len(x.mw) : x.mw[k][1] + Len(x.mw[k][2]) <= rsp        \* live slots survive
  /\ (i.m = "pop" /\ topstore # <<>>) => ReadView(x.r, i.ops[1].r) = topstore                         \* store-then-pop
  /\ (i.m = "ret") => x.rip = Load(st, st.r["RSP"], 8)                                                 \* ret consumes [RSP]
  /\ (i.m = "push") => Load(Apply(st, x), x.r["RSP"], 8) = ReadView(st.r, i.ops[1].r)                  \* pushed value is at the new top

Next == /\ n < MaxSteps
        /\ \E i \in Prog :
             LET x == StepD(st, i, Dev, st.r) IN
             /\ x.out = "ok"
             /\ Assert(Laws(i, x), <<"C04 law violated by", i.m, i.ops>>)
             /\ st' = [Apply(st, x) EXCEPT !.rip = st.rip]
             /\ topstore' = IF i.m = "mov" /\ i.ops[1].k = "mem" THEN ReadView(st.r, "RAX")
                            ELSE IF i.m \in {"push", "pop", "call", "ret"} THEN <<>> ELSE topstore
             /\ n' = n + 1
=============================================================================
