------------------------------- MODULE MC_EA -------------------------------
(* Effective-address arithmetic of X86.tla (EAOff / EA) against ground truth in Nat at a small digit base:
   (base + index*scale + disp [+ segment base]) mod 2^64, truncated to the low half for the 32-bit address size,
   for wrapping operands. *)
EXTENDS X86, TLC

VARIABLES b, x, d, sc, asz, seg
vars == <<b, x, d, sc, asz, seg>>
Val(v)  == LET RECURSIVE V(_)
               V(i) == IF i > Len(v) THEN 0 ELSE v[i] * Base^(i-1) + V(i+1)
           IN V(1)
M == Base ^ 8
Half == Base ^ 4
\* interesting 8-digit values: 0, 1, small, just below / at the half boundary, all ones, all ones minus small
Interesting == {Zeros(8), Ones(8)} \cup {[i \in 1..8 |-> IF i = k THEN 1 ELSE 0] : k \in {1, 4, 5, 8}}
               \cup {[i \in 1..8 |-> IF i <= 4 THEN Base - 1 ELSE 0]} \cup {[i \in 1..8 |-> IF i = 1 THEN Base - 2 ELSE Base - 1]}
               \cup {[i \in 1..8 |-> IF i = 8 THEN Base \div 2 ELSE (IF i = 1 THEN 3 ELSE 0)]}
Init == /\ b \in Interesting /\ x \in Interesting /\ d \in Interesting /\ sc \in {1, 2, 4, 8} /\ asz \in {32, 64}
        /\ seg \in Interesting
Next == UNCHANGED vars

Op == [k |-> "mem", r |-> "", w |-> 64, base |-> "RBX", index |-> "RCX", scale |-> sc, disp |-> d, seg |-> "gs", asz |-> asz, v |-> Zeros(8)]
St == [r |-> [RBX |-> b, RCX |-> x], gs |-> seg, fs |-> Zeros(8)]
EAOK == LET off == (Val(b) + Val(x) * sc + Val(d)) % (IF asz = 32 THEN Half ELSE M) IN
        /\ Val(EAOff(St, Op)) = off
        /\ Val(EA(St, Op)) = (off + Val(seg)) % M
        \* no base / no index
        /\ Val(EAOff(St, [Op EXCEPT !.base = ""])) = (Val(x) * sc + Val(d)) % (IF asz = 32 THEN Half ELSE M)
        /\ Val(EAOff(St, [Op EXCEPT !.index = ""])) = (Val(b) + Val(d)) % (IF asz = 32 THEN Half ELSE M)
        /\ EA(St, [Op EXCEPT !.seg = ""]) = EAOff(St, Op)
=============================================================================
