CONSTANTS
  Base = 256
  DBits = 8
  RegLen = 8
INIT Init
NEXT Next
INVARIANT Dump
CHECK_DEADLOCK FALSE
