CONSTANTS
  Regs = {"r1"}
  Vals = {0}
INIT TraceInit
NEXT TNext
CHECK_DEADLOCK FALSE
