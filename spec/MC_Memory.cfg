CONSTANTS
  HUGE = 1073741824
  MaxAddr = 7
  MaxAreas = 3
  MaxDepth = 3
  DumpEdges = FALSE
INIT Init
NEXT Next
VIEW View
INVARIANTS C10_NoOverlap Coherent
ACTION_CONSTRAINT EdgeCheck
CHECK_DEADLOCK FALSE
