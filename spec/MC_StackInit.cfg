CONSTANTS
  MaxN = 2
  DumpEdges = FALSE
INIT Init
NEXT Next
INVARIANT Inv
CHECK_DEADLOCK FALSE
