----------------------------- MODULE Trace_TwoRun -----------------------------
(* Trace validation for C20: each event pairs the observation of one action on two independently constructed
   machines (same process, or different processes).  The binding normalises the only permitted difference - pipe
   descriptor numbers - and everything else must agree: results, error texts, registers, flags, memory digest,
   executed-instruction count, structured trace and rendered trace / call stack. *)
EXTENDS TLC, Json, IOUtils, Sequences, Naturals
Rec == ndJsonDeserialize(IOEnv.TRACE)
VARIABLE l
TraceInit == l = 1
\* keys are per register / per area: two machines whose area lists differ have different key sets, and that is a difference
Diff(e) == {k \in DOMAIN e.a \cup DOMAIN e.b : k \notin DOMAIN e.a \/ k \notin DOMAIN e.b \/ e.a[k] # e.b[k]}
Next == /\ l <= Len(Rec)
        /\ LET e == Rec[l] IN IF e.a = e.b THEN TRUE ELSE PrintT(<<"VERDICT", e.sc, e.i, e.pair, Diff(e)>>)
        /\ l' = l + 1
Finish == l = Len(Rec) + 1 /\ PrintT(<<"TRACE-DONE", Len(Rec)>>) /\ l' = l + 1
TNext == Next \/ Finish
=============================================================================
