------------------------------- MODULE Pipe -------------------------------
(***************************************************************************)
(* The built-in pipe handler of ax (syscalls pipe / read / write issued by *)
(* the guest): each pipe is a FIFO byte stream (property C14).             *)
(*                                                                         *)
(* State: ends  - set of [r, w] descriptor pairs                           *)
(*        buf   - read end -> buffered bytes                               *)
(* Descriptor numbers are the implementation's choice (any unused numbers).*)
(* Pure operators; MC_Pipe wraps them into actions with history variables, *)
(* Trace_Pipe applies them to recorded guest syscalls.                     *)
(***************************************************************************)
EXTENDS Naturals, Sequences, FiniteSets

ReadEnds(ends)  == {p.r : p \in ends}
WriteEnds(ends) == {p.w : p \in ends}
AllFds(ends)    == ReadEnds(ends) \cup WriteEnds(ends)
ReadEndOf(ends, w) == (CHOOSE p \in ends : p.w = w).r
Min(a, b) == IF a < b THEN a ELSE b
Take(s, n) == SubSeq(s, 1, n)
Drop(s, n) == SubSeq(s, n + 1, Len(s))

\* pipe(): two fresh, distinct descriptors; the new pipe is empty
CreateOK(ends, buf, ends2, buf2, r, w) ==
  /\ r # w /\ r \notin AllFds(ends) /\ w \notin AllFds(ends)
  /\ ends2 = ends \cup {[r |-> r, w |-> w]}
  /\ buf2 = [x \in DOMAIN buf \cup {r} |-> IF x = r THEN <<>> ELSE buf[x]]

\* write(fd, data): a pipe call iff fd is the WRITE end of a pipe
IsPipeWrite(ends, fd) == fd \in WriteEnds(ends)
WriteBuf(ends, buf, fd, data) == [buf EXCEPT ![ReadEndOf(ends, fd)] = @ \o data]

\* read(fd, n): a pipe call iff fd is the READ end of a pipe; returns at most n and at most the available bytes
IsPipeRead(ends, fd) == fd \in ReadEnds(ends)
ReadCount(buf, fd, n) == Min(n, Len(buf[fd]))
ReadData(buf, fd, n) == Take(buf[fd], ReadCount(buf, fd, n))
ReadBuf(buf, fd, n) == [buf EXCEPT ![fd] = Drop(@, ReadCount(buf, fd, n))]
=============================================================================
