CONSTANTS
  N = 2
  MaxCalls = 3
  HookMode = "none"
  MaxHooks = 0
  DumpEdges = FALSE
INIT Init
NEXT Next
VIEW View
INVARIANTS C11_Count C11_Finished C11_Depth C18_Log C18_Levels C18_CallStack
ACTION_CONSTRAINT EdgeCheck
CHECK_DEADLOCK FALSE
